/* C11: no secret-dependent branch or address.  Run under valgrind memcheck; every secret
 * (keys, plaintext, passwords, fed entropy, every byte delivered by getrandom = masking
 * randomness and PRNG seed) is marked UNDEFINED, so memcheck reports exactly the
 * conditional jumps / address computations that depend on it (the "ctgrind" method).
 * Public values (lengths, nonces, AD, the tag presented to a verifier) stay defined;
 * accept/reject results are declassified by the harness before it looks at them.
 * The harness itself never branches on, indexes with, or prints a tainted value.
 */
#include "common.h"
#include <valgrind/memcheck.h>
#include <ascon/aead.h>
#include <ascon/aead-masked.h>
#include <ascon/siv.h>
#include <ascon/isap.h>
#include <ascon/hash.h>
#include <ascon/prf.h>
#include <ascon/hmac.h>
#include <ascon/kmac.h>
#include <ascon/kdf.h>
#include <ascon/hkdf.h>
#include <ascon/pbkdf2.h>
#include <ascon/random.h>
#include <sys/types.h>

#define TAINT(p, n) VALGRIND_MAKE_MEM_UNDEFINED((p), (n))
#define PUBLIC(p, n) VALGRIND_MAKE_MEM_DEFINED((p), (n))

/* Every report in the valgrind log is attributed to the operation in progress: "plain" operations have no public
 * outcome (any tainted branch/address is a violation); "outcome" operations (decrypt, verify) end in a public
 * accept/reject result, on which the property allows control flow to depend - a tainted branch reported inside them
 * goes to the outcome arbiter (see c11.py) instead of being judged directly. */
static void op_mark(const char *fam, const char *cls) { VALGRIND_PRINTF("VFOP %llu %s %s\n", (unsigned long long)vf_case, fam, cls); }

static rng_t *R;
static long tainted_bytes = 0, ops = 0;
/* --arg secrets=<file>: no taint marking; every secret byte (keys, plaintext, fed entropy, getrandom output) is taken
 * from the file instead, so that two runs with different files differ ONLY in secret values.  Used by the thorough
 * tier under valgrind's lackey tool: the instruction/data address traces of the two runs must be identical. */
static uint8_t *sec_pool = 0; static size_t sec_len = 0, sec_pos = 0;
static void sec_take(uint8_t *p, size_t n) { for (size_t i = 0; i < n; ++i) { p[i] = sec_pool[sec_pos]; sec_pos = sec_pos + 1 == sec_len ? 0 : sec_pos + 1; } }

/* system entropy: deterministic bytes, marked secret */
static uint64_t gr_state = 99;
static uint8_t arb_stage[8192]; static size_t arb_stage_pos; static int arb_stage_on;
static void arb_stage_refill(void) { sec_take(arb_stage, sizeof(arb_stage)); arb_stage_pos = 0; }
ssize_t getrandom(void *buf, size_t n, unsigned flags)
{
    unsigned char *p = (unsigned char *)buf;
    (void)flags;
    if (arb_stage_on) {      /* arbiter: every segment reads its entropy from the same addresses (refilled between segments) */
        for (size_t i = 0; i < n; ++i) { p[i] = arb_stage[arb_stage_pos]; arb_stage_pos = (arb_stage_pos + 1) % sizeof(arb_stage); }
        return (ssize_t)n;
    }
    if (sec_pool) { sec_take(p, n); return (ssize_t)n; }
    for (size_t i = 0; i < n; ++i) { uint64_t x = gr_state++; p[i] = (unsigned char)(vf_splitmix(&x) >> 23); }
    TAINT(buf, n);
    tainted_bytes += (long)n;
    return (ssize_t)n;
}

static uint8_t *secret(size_t n)
{
    uint8_t *p = (uint8_t *)galloc(n, (int)rng_below(R, 2));
    rng_bytes(R, p, n);
    if (sec_pool) { sec_take(p, n); return p; }
    TAINT(p, n);
    tainted_bytes += (long)n;
    return p;
}
static uint8_t *pub(size_t n)
{
    uint8_t *p = (uint8_t *)galloc(n, (int)rng_below(R, 2));
    rng_bytes(R, p, n);
    return p;
}
static uint8_t *outbuf(size_t n) { return (uint8_t *)galloc(n, 1); }

/* liveness canary: a branch on a secret byte, must be reported by the monitor */
__attribute__((noinline)) int vf_ct_canary(const uint8_t *s)
{
    volatile int x = 0;
    if (s[0] & 1) x = 1;
    return x;
}

static const size_t GRID8[] = {0, 1, 7, 8, 9, 15, 16, 17, 29, 64};
static const size_t GRID16[] = {0, 1, 15, 16, 17, 31, 32, 33, 53, 64};

typedef void (*enc_fn)(unsigned char *, size_t *, const unsigned char *, size_t, const unsigned char *, size_t, const unsigned char *, const unsigned char *);
typedef int (*dec_fn)(unsigned char *, size_t *, const unsigned char *, size_t, const unsigned char *, size_t, const unsigned char *, const unsigned char *);

/* one-shot style family: encrypt with secret key+plaintext, decrypt genuine, decrypt with a wrong tag byte at several positions */
static void aead_family(const char *name, enc_fn enc, dec_fn dec, unsigned klen, size_t adlen, size_t mlen)
{
    uint8_t *k = secret(klen), *n = pub(16), *ad = pub(adlen), *m = secret(mlen), *c = outbuf(mlen + 16), *m2 = outbuf(mlen), *c2 = outbuf(mlen + 16);
    size_t clen = 0, mlen2 = 0;
    int r;
    vf_progress("case=%llu ct %s adlen=%zu mlen=%zu", (unsigned long long)vf_case, name, adlen, mlen);
    op_mark(name, "plain");
    enc(c, &clen, m, mlen, ad, adlen, n, k);
    /* the ciphertext is public once sent: declassify a copy for the receiver side */
    memcpy(c2, c, mlen + 16); PUBLIC(c2, mlen + 16);
    op_mark(name, "outcome");
    r = dec(m2, &mlen2, c2, mlen + 16, ad, adlen, n, k);
    PUBLIC(&r, sizeof(r));
    if (r < 0) vf_count("ct_unexpected_reject", 1);
    for (unsigned pos = 0; pos < 3; ++pos) {      /* wrong tag: first, middle, last byte -> same trace expected */
        static const unsigned at[3] = {0, 7, 15};
        c2[mlen + at[pos]] ^= 0x01;
        r = dec(m2, &mlen2, c2, mlen + 16, ad, adlen, n, k);
        PUBLIC(&r, sizeof(r));
        if (r >= 0) vf_count("ct_unexpected_accept", 1);
        c2[mlen + at[pos]] ^= 0x01;
    }
    if (mlen) { c2[0] ^= 0x80; r = dec(m2, &mlen2, c2, mlen + 16, ad, adlen, n, k); PUBLIC(&r, sizeof(r)); }
    op_mark(name, "plain");
    ops += 6;
    vf_distinct("ct|%s|ad%zu|m%zu", name, adlen, mlen);
    gfree(k); gfree(n); gfree(ad); gfree(m); gfree(c); gfree(m2); gfree(c2);
}

#define INC(P, ST) \
static void inc_enc_##P(unsigned char *c, size_t *clen, const unsigned char *m, size_t mlen, const unsigned char *ad, size_t adlen, const unsigned char *n, const unsigned char *k) \
{ ST st; size_t h = mlen / 3; P##_aead_init(&st, n, k); P##_aead_start(&st, ad, adlen); P##_aead_encrypt_block(&st, m, c, h); P##_aead_encrypt_block(&st, m + h, c + h, mlen - h); \
  P##_aead_encrypt_finalize(&st, c + mlen); P##_aead_free(&st); *clen = mlen + 16; } \
static int inc_dec_##P(unsigned char *m, size_t *mlen, const unsigned char *c, size_t clen, const unsigned char *ad, size_t adlen, const unsigned char *n, const unsigned char *k) \
{ ST st; size_t l = clen - 16, h = l / 2; int r; P##_aead_init(&st, n, k); P##_aead_start(&st, ad, adlen); P##_aead_decrypt_block(&st, c, m, h); P##_aead_decrypt_block(&st, c + h, m + h, l - h); \
  r = P##_aead_decrypt_finalize(&st, c + l); P##_aead_free(&st); *mlen = l; return r; }
INC(ascon128, ascon128_state_t) INC(ascon128a, ascon128a_state_t) INC(ascon80pq, ascon80pq_state_t)

#define MASK(P, KT, KP) \
static void mask_enc_##P(unsigned char *c, size_t *clen, const unsigned char *m, size_t mlen, const unsigned char *ad, size_t adlen, const unsigned char *n, const unsigned char *k) \
{ KT mk; KP##_init(&mk, k); KP##_randomize(&mk); P##_masked_aead_encrypt(c, clen, m, mlen, ad, adlen, n, &mk); KP##_free(&mk); } \
static int mask_dec_##P(unsigned char *m, size_t *mlen, const unsigned char *c, size_t clen, const unsigned char *ad, size_t adlen, const unsigned char *n, const unsigned char *k) \
{ KT mk; int r; unsigned char kx[20]; KP##_init(&mk, k); r = P##_masked_aead_decrypt(m, mlen, c, clen, ad, adlen, n, &mk); KP##_extract(&mk, kx); KP##_free(&mk); return r; }
MASK(ascon128, ascon_masked_key_128_t, ascon_masked_key_128) MASK(ascon128a, ascon_masked_key_128_t, ascon_masked_key_128) MASK(ascon80pq, ascon_masked_key_160_t, ascon_masked_key_160)

#define ISAP(P, KT) \
static void isap_enc_##P(unsigned char *c, size_t *clen, const unsigned char *m, size_t mlen, const unsigned char *ad, size_t adlen, const unsigned char *n, const unsigned char *k) \
{ KT pk; unsigned char sv[80]; P##_isap_aead_init(&pk, k); P##_isap_aead_save_key(&pk, sv); P##_isap_aead_free(&pk); P##_isap_aead_load_key(&pk, sv); P##_isap_aead_encrypt(c, clen, m, mlen, ad, adlen, n, &pk); P##_isap_aead_free(&pk); } \
static int isap_dec_##P(unsigned char *m, size_t *mlen, const unsigned char *c, size_t clen, const unsigned char *ad, size_t adlen, const unsigned char *n, const unsigned char *k) \
{ KT pk; int r; P##_isap_aead_init(&pk, k); r = P##_isap_aead_decrypt(m, mlen, c, clen, ad, adlen, n, &pk); P##_isap_aead_free(&pk); return r; }
ISAP(ascon128, ascon128_isap_aead_key_t) ISAP(ascon128a, ascon128a_isap_aead_key_t) ISAP(ascon80pq, ascon80pq_isap_aead_key_t)

/* ---------------------------------------------------------------- outcome arbiter (--arg arb=<secrets file>, --only <case>)
 * Runs under valgrind lackey.  One process executes the decrypt / verify operation of ONE public shape many times:
 * 3 secret sets x {genuine, tag wrong in one bit of byte p for p = 0..15, all tag bytes wrong, first+last byte wrong}.
 * Each execution is bracketed by marker stores; c11.py cuts the instruction + data address trace into these segments and
 * requires all segments with the same accept/reject outcome to be identical.  That is the property's own criterion:
 * the trace may depend on the outcome, not on the secrets and not on where the tag differs. */
static volatile uint64_t vf_seg_begin, vf_seg_end;
#define SEG_BEGIN() do { for (int i_ = 0; i_ < 12; ++i_) vf_seg_begin = 1; } while (0)
#define SEG_END() do { for (int i_ = 0; i_ < 12; ++i_) vf_seg_end = 1; } while (0)
#define ARB_VARIANTS 19
static void arb_tamper(uint8_t *tag, int v)
{
    if (v >= 1 && v <= 16) tag[v - 1] ^= (uint8_t)(1u << ((v * 3) & 7));
    else if (v == 17) for (int i = 0; i < 16; ++i) tag[i] ^= 0xff;
    else if (v == 18) { tag[0] ^= 0x01; tag[15] ^= 0x80; }
}
static void aead_arb(const char *name, enc_fn enc, dec_fn dec, unsigned klen, size_t adlen, size_t mlen)
{
    static uint8_t k[20], n[16], ad[64], m[64], c[80], c2[80], m2[64];
    size_t clen = 0, mlen2 = 0;
    int seg = 0, r;
    rng_bytes(R, n, 16); rng_bytes(R, ad, sizeof(ad));
    printf("A\t%p\t%p\t%s\n", (void *)&vf_seg_begin, (void *)&vf_seg_end, name);
    for (int set = 0; set < 3; ++set) {
        sec_take(k, klen); sec_take(m, mlen);
        enc(c, &clen, m, mlen, ad, adlen, n, k);
        if (set == 0) {     /* warm-up of both outcomes: lazy symbol binding, first-touch effects */
            memcpy(c2, c, mlen + 16); dec(m2, &mlen2, c2, mlen + 16, ad, adlen, n, k);
            c2[mlen + 3] ^= 4; dec(m2, &mlen2, c2, mlen + 16, ad, adlen, n, k);
        }
        for (int v = 0; v < ARB_VARIANTS; ++v) {
            memcpy(c2, c, mlen + 16);
            arb_tamper(c2 + mlen, v);
            arb_stage_refill();
            SEG_BEGIN();
            r = dec(m2, &mlen2, c2, mlen + 16, ad, adlen, n, k);
            SEG_END();
            printf("O\t%d\t%d\t%d\t%d\n", seg++, r < 0 ? 0 : 1, set, v);
        }
    }
}
static void mac_arb(size_t inlen)
{
    static uint8_t k[16], in[128], tag[16], t2[16];
    int seg = 0, r;
    printf("A\t%p\t%p\t%s\n", (void *)&vf_seg_begin, (void *)&vf_seg_end, "prf-mac");
    for (int set = 0; set < 3; ++set) {
        sec_take(k, 16); sec_take(in, inlen);
        ascon_mac(tag, in, inlen, k);
        if (set == 0) { memcpy(t2, tag, 16); ascon_mac_verify(t2, in, inlen, k); t2[5] ^= 2; ascon_mac_verify(t2, in, inlen, k); }
        for (int v = 0; v < ARB_VARIANTS; ++v) {
            memcpy(t2, tag, 16);
            arb_tamper(t2, v);
            arb_stage_refill();
            SEG_BEGIN();
            r = ascon_mac_verify(t2, in, inlen, k);
            SEG_END();
            printf("O\t%d\t%d\t%d\t%d\n", seg++, r < 0 ? 0 : 1, set, v);
        }
    }
}

static const struct { const char *name; enc_fn enc; dec_fn dec; unsigned klen, rate; } FAM[] = {
    {"ascon128", ascon128_aead_encrypt, ascon128_aead_decrypt, 16, 8}, {"ascon128a", ascon128a_aead_encrypt, ascon128a_aead_decrypt, 16, 16},
    {"ascon80pq", ascon80pq_aead_encrypt, ascon80pq_aead_decrypt, 20, 8},
    {"ascon128-inc", inc_enc_ascon128, inc_dec_ascon128, 16, 8}, {"ascon128a-inc", inc_enc_ascon128a, inc_dec_ascon128a, 16, 16}, {"ascon80pq-inc", inc_enc_ascon80pq, inc_dec_ascon80pq, 20, 8},
    {"ascon128-masked", mask_enc_ascon128, mask_dec_ascon128, 16, 8}, {"ascon128a-masked", mask_enc_ascon128a, mask_dec_ascon128a, 16, 16}, {"ascon80pq-masked", mask_enc_ascon80pq, mask_dec_ascon80pq, 20, 8},
    {"ascon128-siv", ascon128_siv_encrypt, ascon128_siv_decrypt, 16, 8}, {"ascon128a-siv", ascon128a_siv_encrypt, ascon128a_siv_decrypt, 16, 16}, {"ascon80pq-siv", ascon80pq_siv_encrypt, ascon80pq_siv_decrypt, 20, 8},
    {"isap128", isap_enc_ascon128, isap_dec_ascon128, 16, 8}, {"isap128a", isap_enc_ascon128a, isap_dec_ascon128a, 16, 8}, {"isap80pq", isap_enc_ascon80pq, isap_dec_ascon80pq, 20, 8},
};
#define NFAM (sizeof(FAM) / sizeof(FAM[0]))

static void mac_family(size_t inlen, size_t outlen)
{
    uint8_t *k = secret(16), *in = rng_below(R, 2) ? secret(inlen) : pub(inlen), *out = outbuf(outlen > 16 ? outlen : 16), *tag = outbuf(16);
    int r;
    vf_progress("case=%llu ct prf/mac inlen=%zu outlen=%zu", (unsigned long long)vf_case, inlen, outlen);
    op_mark("prf-mac", "plain");
    ascon_prf(out, outlen, in, inlen, k);
    ascon_prf_fixed(out, outlen, in, inlen, k);
    if (inlen <= 16) { r = ascon_prf_short(out, outlen > 16 ? 16 : outlen, in, inlen, k); PUBLIC(&r, sizeof(r)); }
    ascon_mac(tag, in, inlen, k);
    PUBLIC(tag, 16);                               /* the tag travels in the clear */
    op_mark("prf-mac", "outcome");
    r = ascon_mac_verify(tag, in, inlen, k); PUBLIC(&r, sizeof(r));
    if (r != 0) vf_count("ct_unexpected_reject", 1);
    for (unsigned pos = 0; pos < 16; pos += 5) {
        tag[pos] ^= 0x20;
        r = ascon_mac_verify(tag, in, inlen, k); PUBLIC(&r, sizeof(r));
        if (r == 0) vf_count("ct_unexpected_accept", 1);
        tag[pos] ^= 0x20;
    }
    op_mark("prf-mac", "plain");
    {   ascon_prf_state_t st; size_t h = inlen / 2;
        ascon_prf_init(&st, k); ascon_prf_absorb(&st, in, h); ascon_prf_absorb(&st, in + h, inlen - h); ascon_prf_squeeze(&st, out, outlen / 2); ascon_prf_squeeze(&st, out + outlen / 2, outlen - outlen / 2); ascon_prf_free(&st); }
    ops += 9;
    vf_distinct("ct|prf-mac|in%zu|out%zu", inlen, outlen);
    gfree(k); gfree(in); gfree(out); gfree(tag);
}

static void keyed_hash_family(size_t keylen, size_t inlen, size_t outlen)
{
    uint8_t *k = secret(keylen), *in = rng_below(R, 2) ? secret(inlen) : pub(inlen), *cu = pub(10), *salt = pub(9), *out = outbuf(outlen > 64 ? outlen : 64);
    vf_progress("case=%llu ct hmac/kmac/kdf keylen=%zu inlen=%zu outlen=%zu", (unsigned long long)vf_case, keylen, inlen, outlen);
    op_mark("keyed-hash", "plain");
    ascon_hmac(out, k, keylen, in, inlen);
    ascon_hmaca(out, k, keylen, in, inlen);
    {   ascon_hmac_state_t st; ascon_hmac_init(&st, k, keylen); ascon_hmac_update(&st, in, inlen); ascon_hmac_finalize(&st, k, keylen, out); ascon_hmac_free(&st); }
    ascon_kmac(k, keylen, in, inlen, cu, 10, out, outlen);
    ascon_kmaca(k, keylen, in, inlen, 0, 0, out, 32);
    ascon_kdf(out, outlen, k, keylen, cu, 10);
    ascon_kdfa(out, outlen, k, keylen, 0, 0);
    ascon_hkdf(out, outlen, k, keylen, salt, 9, cu, 10);
    ascon_hkdfa(out, outlen, k, keylen, 0, 0, 0, 0);
    {   ascon_hkdf_state_t st; ascon_hkdf_extract(&st, k, keylen, salt, 9); ascon_hkdf_expand(&st, cu, 10, out, outlen / 2); ascon_hkdf_expand(&st, cu, 10, out, outlen - outlen / 2); ascon_hkdf_free(&st); }
    ascon_pbkdf2(out, outlen > 40 ? 40 : outlen, k, keylen, salt, 9, 3);
    {   /* two consecutive derivations with different secret passwords of the same length (a cache keyed on the customisation
           string of the cXOF would compare the passwords) */
        uint8_t *k2 = secret(keylen);
        ascon_pbkdf2(out, 24, k2, keylen, salt, 9, 1);
        ascon_pbkdf2(out, 24, k, keylen, salt, 9, 1);
        ascon_pbkdf2_hmac(out, 24, k2, keylen, salt, 9, 1);
        gfree(k2);
    }
    ascon_pbkdf2_hmac(out, outlen > 40 ? 40 : outlen, k, keylen, salt, 9, 2);
    ops += 12;
    vf_distinct("ct|keyed-hash|key%zu|in%zu|out%zu", keylen, inlen, outlen);
    gfree(k); gfree(in); gfree(cu); gfree(salt); gfree(out);
}

static uint8_t ct_store[64];
static int ct_read(const ascon_storage_t *s, size_t off, unsigned char *data, size_t size)
{
    (void)s; memcpy(data, ct_store + off, size);
    if (sec_pool) sec_take(data, size); else TAINT(data, size);      /* a stored seed is secret */
    return (int)size;
}
static int ct_write(const ascon_storage_t *s, size_t off, const unsigned char *data, size_t size, int erase)
{
    (void)s; (void)erase; memcpy(ct_store + off, data, size); PUBLIC(ct_store, sizeof(ct_store)); return (int)size;
}

static void prng_family(size_t n)
{
    ascon_random_state_t st;
    uint8_t *out = outbuf(n + 32), *feed = secret(n);
    vf_progress("case=%llu ct prng n=%zu", (unsigned long long)vf_case, n);
    op_mark("prng", "plain");
    ascon_random(out, n);
    ascon_random_init(&st);
    ascon_random_fetch(&st, out, n);
    ascon_random_feed(&st, feed, n);
    ascon_random_fetch(&st, out, 32);
    ascon_random_reseed(&st);
    ascon_random_fetch(&st, out, n);
    {   ascon_storage_t sto; int r1, r2;
        memset(&sto, 0, sizeof(sto)); sto.page_size = 32; sto.erase_size = (n & 1) ? 32 : 0; sto.size = 64; sto.read = ct_read; sto.write = ct_write;
        r1 = ascon_random_save_seed(&st, &sto); PUBLIC(&r1, sizeof(r1));
        r2 = ascon_random_load_seed(&st, &sto); PUBLIC(&r2, sizeof(r2));
        ascon_random_fetch(&st, out, 16); }
    ascon_random_free(&st);
    ops += 10;
    vf_distinct("ct|prng|n%zu", n);
    gfree(out); gfree(feed);
}

int main(int argc, char **argv)
{
    vf_args_t a;
    rng_t r;
    uint64_t idx = 0;
    int reps, arb = 0;
    vf_prop = "C11";
    vf_parse_args(argc, argv, &a);
    R = &r;
    reps = a.cases > 0 ? (int)a.cases : 1;
    rng_seed(&r, a.seed, 0);
    if (a.arg && !strcmp(a.arg, "canary")) {      /* liveness: the monitor must flag this */
        uint8_t *s = secret(4);
        int x = vf_ct_canary(s);
        PUBLIC(&x, sizeof(x));
        printf("S\tcanary_ran\t1\n");
        gfree(s);
        vf_finish();
        return 0;
    }
    if (a.arg && !strncmp(a.arg, "arb=", 4)) arb = arb_stage_on = 1;
    if (a.arg && (!strncmp(a.arg, "secrets=", 8) || arb)) {
        FILE *f = fopen(a.arg + (arb ? 4 : 8), "rb");
        if (!f) { fprintf(stderr, "HARNESS cannot open %s\n", a.arg + (arb ? 4 : 8)); return 2; }
        sec_pool = (uint8_t *)malloc(1 << 16);
        sec_len = fread(sec_pool, 1, 1 << 16, f);
        fclose(f);
        if (sec_len < 4096) { fprintf(stderr, "HARNESS secrets file too small\n"); return 2; }
        /* trace marker: 12 consecutive 8-byte stores to one address; the trace comparison starts after it
         * (process start-up in ld.so touches kernel-provided random bytes and is not part of the workload) */
        { static volatile uint64_t vf_trace_marker; for (int i = 0; i < 12; ++i) vf_trace_marker = 0x4d41524b4552ULL; }
    }
    for (int rep = 0; rep < reps; ++rep) {
        for (size_t f = 0; f < NFAM; ++f)
            for (int i = 0; i < 10; ++i)
                for (int j = 0; j < 10; ++j, ++idx) {
                    if (!vf_mine(&a, idx)) continue;
                    rng_seed(&r, a.seed ^ 0xc7, idx + (uint64_t)rep * 100000);
                    vf_case_begin(idx);
                    if (arb) { aead_arb(FAM[f].name, FAM[f].enc, FAM[f].dec, FAM[f].klen, (FAM[f].rate == 16 ? GRID16 : GRID8)[i], (FAM[f].rate == 16 ? GRID16 : GRID8)[j]); continue; }
                    aead_family(FAM[f].name, FAM[f].enc, FAM[f].dec, FAM[f].klen, (FAM[f].rate == 16 ? GRID16 : GRID8)[i], (FAM[f].rate == 16 ? GRID16 : GRID8)[j]);
                    vf_count("cases", 1);
                }
        for (int i = 0; i < 10; ++i)
            for (int j = 0; j < 10; ++j, ++idx) {
                static const size_t INL[] = {0, 1, 15, 16, 17, 31, 32, 33, 64, 97}, OUTL[] = {0, 1, 15, 16, 17, 31, 32, 33, 48, 70};
                if (!vf_mine(&a, idx)) continue;
                rng_seed(&r, a.seed ^ 0xc8, idx + (uint64_t)rep * 100000);
                vf_case_begin(idx);
                if (arb) { mac_arb(INL[i]); continue; }
                mac_family(INL[i], OUTL[j]);
                keyed_hash_family((size_t[]){0, 1, 16, 31, 32, 63, 64, 65, 100, 130}[i], INL[j], OUTL[(i + j) % 10]);
                vf_count("cases", 2);
            }
        for (int i = 0; i < 8; ++i, ++idx) {
            if (!vf_mine(&a, idx)) continue;
            rng_seed(&r, a.seed ^ 0xc9, idx + (uint64_t)rep * 100000);
            vf_case_begin(idx);
            if (arb) continue;
            prng_family((size_t[]){0, 1, 7, 8, 9, 32, 100, 300}[i]);
            vf_count("cases", 1);
        }
    }
    vf_count("tainted_bytes", tainted_bytes);
    vf_count("keyed_operations", ops);
    gcheck_all("end");
    vf_finish();
    return 0;
}
