/* Hash / XOF / cXOF (C03), PRF / MAC / HMAC / KMAC (C04), HKDF / PBKDF2 / KDF (C05)
 * against the reference model, each through its one-shot entry point AND through its
 * incremental interface with random chunking of input and output, state copies and
 * re-initialisation after use (C07).
 *
 * A mismatch of the one-shot result is reported under C03/C04/C05; if the one-shot
 * result is right and only the incremental history differs it is reported under C07.
 * --arg <prop>  restricts the algorithm set to one property's algorithms (C07: all).
 */
#include "common.h"
#include "ascon_ref.h"
#include <ascon/hash.h>
#include <ascon/xof.h>
#include <ascon/prf.h>
#include <ascon/hmac.h>
#include <ascon/kmac.h>
#include <ascon/hkdf.h>
#include <ascon/kdf.h>
#include <ascon/pbkdf2.h>

static rng_t *R;
static int thorough;
static const char *only_prop = 0;

/* a buffer of n bytes, or NULL when n == 0 and the coin says so (optional empty input) */
static uint8_t *in_buf(size_t n, int allow_null)
{
    if (n == 0 && allow_null && rng_below(R, 2)) return 0;
    return (uint8_t *)galloc(n, (int)rng_below(R, 2));
}
static void in_free(uint8_t *p) { if (p) gfree(p); }

static uint8_t *rand_in(size_t n, int allow_null)
{
    uint8_t *p = in_buf(n, allow_null);
    if (p) fill_pattern(R, p, n, pick_pattern(R));
    return p;
}

/* report: one-shot vs reference under `prop`, incremental vs reference under C07 when one-shot was right */
static int report(const char *prop, const char *alg, const char *path, int oneshot_ok, const uint8_t *got, const uint8_t *exp, size_t n,
                  const char *ctx)
{
    char key[128];
    int inc = strcmp(path, "oneshot") != 0;
    snprintf(key, sizeof(key), "%s:%s", alg, path);
    /* a wrong incremental result breaks the functional property (the digest for this input is wrong through a
     * documented entry point) and, when the single-call form was right, the chunking-invariance property too */
    if (inc && oneshot_ok) vf_eq("C07", key, "incremental result differs from the single-call result", got, exp, n, "%s", ctx);
    return vf_eq(prop, key, inc ? "incremental result" : "one-shot result", got, exp, n, "%s", ctx);
}

#define CHUNKS 260
static const char *hist_name[] = {"plain", "copy", "reinit", "copy+reinit"};

/* ---------------------------------------------------------------- XOF family (xof, xofa; plain / fixed / custom) */
/* kind: 0 plain init, 1 init_fixed(declared), 2 init_custom(name, custom, declared) */
typedef struct {
    int a, kind;
    size_t declared;
    const char *name; size_t namelen;
    const uint8_t *custom; size_t customlen;
} xofcfg_t;

static void xof_init_cfg(int a, void *st, const xofcfg_t *c, int re)
{
    if (!a) {
        ascon_xof_state_t *s = (ascon_xof_state_t *)st;
        if (c->kind == 0) { if (re) ascon_xof_reinit(s); else ascon_xof_init(s); }
        else if (c->kind == 1) { if (re) ascon_xof_reinit_fixed(s, c->declared); else ascon_xof_init_fixed(s, c->declared); }
        else { if (re) ascon_xof_reinit_custom(s, c->name, c->custom, c->customlen, c->declared); else ascon_xof_init_custom(s, c->name, c->custom, c->customlen, c->declared); }
    } else {
        ascon_xofa_state_t *s = (ascon_xofa_state_t *)st;
        if (c->kind == 0) { if (re) ascon_xofa_reinit(s); else ascon_xofa_init(s); }
        else if (c->kind == 1) { if (re) ascon_xofa_reinit_fixed(s, c->declared); else ascon_xofa_init_fixed(s, c->declared); }
        else { if (re) ascon_xofa_reinit_custom(s, c->name, c->custom, c->customlen, c->declared); else ascon_xofa_init_custom(s, c->name, c->custom, c->customlen, c->declared); }
    }
}
static void xof_absorb(int a, void *st, const uint8_t *p, size_t n)
{
    if (!a) ascon_xof_absorb((ascon_xof_state_t *)st, p, n); else ascon_xofa_absorb((ascon_xofa_state_t *)st, p, n);
}
static void xof_squeeze(int a, void *st, uint8_t *p, size_t n)
{
    if (!a) ascon_xof_squeeze((ascon_xof_state_t *)st, p, n); else ascon_xofa_squeeze((ascon_xofa_state_t *)st, p, n);
}
static void xof_copy(int a, void *d, const void *s)
{
    if (!a) ascon_xof_copy((ascon_xof_state_t *)d, (const ascon_xof_state_t *)s); else ascon_xofa_copy((ascon_xofa_state_t *)d, (const ascon_xofa_state_t *)s);
}
static void xof_free(int a, void *st)
{
    if (!a) ascon_xof_free((ascon_xof_state_t *)st); else ascon_xofa_free((ascon_xofa_state_t *)st);
}

/* dirty a state object with an arbitrary prefix history (then the caller re-inits it) */
static void xof_dirty(int a, void *st)
{
    uint8_t junk[70];
    xofcfg_t c; memset(&c, 0, sizeof(c)); c.a = a;
    xof_init_cfg(a, st, &c, 0);
    rng_bytes(R, junk, sizeof(junk));
    xof_absorb(a, st, junk, rng_below(R, 70));
    if (rng_below(R, 2)) xof_squeeze(a, st, junk, rng_below(R, 40));
}

/* incremental run: absorb `in` in chunks, squeeze `outlen` in chunks; hist bit0 = copy mid-way, bit1 = reinit from dirty */
static void xof_incremental(const xofcfg_t *c, const uint8_t *in, size_t inlen, uint8_t *out, size_t outlen, uint8_t *out_copy, int hist)
{
    size_t sz = c->a ? sizeof(ascon_xofa_state_t) : sizeof(ascon_xof_state_t);
    void *st = galloc(sz, (int)rng_below(R, 2)), *st2 = 0;
    size_t ip[CHUNKS], op[CHUNKS], ni = pick_chunks(R, inlen, 8, ip, CHUNKS), no = pick_chunks(R, outlen, 8, op, CHUNKS);
    size_t total = ni + no, copy_at = (hist & 1) ? rng_below(R, (uint32_t)total + 1) : (size_t)-1, step = 0, off = 0, off2 = 0;
    if (hist & 2) { xof_dirty(c->a, st); xof_init_cfg(c->a, st, c, 1); }
    else xof_init_cfg(c->a, st, c, 0);
    for (size_t i = 0; i <= total; ++i, ++step) {
        if (step == copy_at) { st2 = galloc(sz, 1); xof_copy(c->a, st2, st); }
        if (i == total) break;
        if (i < ni) {
            xof_absorb(c->a, st, in ? in + off : 0, ip[i]);
            if (st2) xof_absorb(c->a, st2, in ? in + off : 0, ip[i]);
            off += ip[i];
        } else {
            size_t n = op[i - ni];
            xof_squeeze(c->a, st, out + off2, n);
            if (st2) xof_squeeze(c->a, st2, out_copy + off2, n);
            else memcpy(out_copy + off2, out + off2, n);
            off2 += n;
        }
    }
    vf_max("max_chunks", (long)(ni > no ? ni : no));
    xof_free(c->a, st); gfree(st);
    if (st2) { xof_free(c->a, st2); gfree(st2); }
}

static const size_t DECLARED[] = {0, 1, 2, 7, 8, 16, 31, 32, 33, 40, 64, 65536, ((size_t)1 << 29) - 1, (size_t)1 << 29, ((size_t)1 << 29) + 1, (size_t)-1,
#if SIZE_MAX > 0xffffffffu
    /* lengths whose low 32 bits look small: a clamp evaluated after narrowing to 32 bits goes wrong exactly here */
    (size_t)1 << 31, (size_t)1 << 32, ((size_t)1 << 32) + 1, ((size_t)1 << 32) + 32, ((size_t)1 << 32) + 33, ((size_t)1 << 33) + 64, ((size_t)1 << 32) + ((size_t)1 << 29) - 1,
    ((size_t)1 << 63) + 5, ((size_t)7 << 32) + 16,
#endif
};

static void case_xof(uint64_t sub, int a, int kind)
{
    xofcfg_t c;
    size_t inlen = sub <= 300 ? (size_t)sub : pick_len(R, 8, thorough ? 65536 : 4096);
    size_t outlen = kind == 0 && rng_below(R, 2) ? 32 : pick_len(R, 8, rng_below(R, 8) ? 100 : 4096);
    uint8_t *in = rand_in(inlen, 1), *out = (uint8_t *)galloc(outlen, 1), *out2 = (uint8_t *)galloc(outlen, 0), *exp = (uint8_t *)malloc(outlen + 1);
    char namebuf[48], ctx[700], alg[40];
    uint8_t *custom = 0;
    int hist = (int)rng_below(R, 4), oneshot_ok = 1;
    memset(&c, 0, sizeof(c));
    c.a = a; c.kind = kind;
    if (kind >= 1) c.declared = DECLARED[rng_below(R, sizeof(DECLARED) / sizeof(DECLARED[0]))];
    if (kind == 1 && rng_below(R, 3) == 0) c.declared = rng_below(R, 41);
    if (kind == 2) {
        size_t nl = rng_below(R, 4) == 0 ? 30 + rng_below(R, 11) : rng_below(R, 41);
        for (size_t i = 0; i < nl; ++i) { unsigned ch = 1 + rng_below(R, 255); namebuf[i] = (char)ch; }
        namebuf[nl] = 0;
        c.name = (nl == 0 && rng_below(R, 2)) ? 0 : namebuf; c.namelen = nl;
        c.customlen = rng_below(R, 5) == 0 ? pick_len(R, 8, 1024) : rng_below(R, 41);
        custom = rand_in(c.customlen, 1);
        c.custom = custom;
    }
    snprintf(alg, sizeof(alg), "%s%s", a ? "xofa" : "xof", kind == 0 ? "" : kind == 1 ? "-fixed" : "-custom");
    vf_progress("case=%llu %s inlen=%zu outlen=%zu declared=%zu namelen=%zu customlen=%zu", (unsigned long long)vf_case, alg, inlen, outlen, c.declared, c.namelen, c.customlen);
    ref_cxof(a, exp, outlen, c.declared >= ((size_t)1 << 29) ? 0 : c.declared, (const uint8_t *)namebuf, c.namelen, c.custom, c.customlen, in, inlen);
    snprintf(ctx, sizeof(ctx), "\"alg\":\"%s\",\"inlen\":%zu,\"outlen\":%zu,\"declared\":\"%zx\",\"name\":\"%s\",\"custom\":\"%s\",\"in\":\"%s\",\"history\":\"%s\"",
             alg, inlen, outlen, c.declared, vf_h((const uint8_t *)namebuf, c.namelen), vf_h(c.custom, c.customlen), vf_h(in, inlen), hist_name[hist]);
    /* one-shot forms exist for plain XOF with 32 bytes of output */
    if (kind == 0 && outlen == 32) {
        if (!a) ascon_xof(out, in, inlen); else ascon_xofa(out, in, inlen);
        oneshot_ok = report("C03", alg, "oneshot", 1, out, exp, 32, ctx);
        vf_out(out, 32);
        memset(out, GPAT, 32);
    } else {
        /* the "one-shot" path for the other forms is init + one absorb + one squeeze */
        size_t sz = a ? sizeof(ascon_xofa_state_t) : sizeof(ascon_xof_state_t);
        void *st = galloc(sz, 1);
        xof_init_cfg(a, st, &c, 0);
        xof_absorb(a, st, in, inlen);
        xof_squeeze(a, st, out, outlen);
        xof_free(a, st); gfree(st);
        oneshot_ok = report("C03", alg, "oneshot", 1, out, exp, outlen, ctx);
        vf_out(out, outlen);
        memset(out, GPAT, outlen);
    }
    xof_incremental(&c, in, inlen, out, outlen, out2, hist);
    report("C03", alg, hist_name[hist], oneshot_ok, out, exp, outlen, ctx);
    if (hist & 1) report("C03", alg, "copied-state", oneshot_ok, out2, exp, outlen, ctx);
    {
        char c1[24], c2[24];
        vf_distinct("%s|in%s|out%s|%s|decl%s|name%s|cust%s", alg, len_class(inlen, 8, c1), len_class(outlen, 8, c2), hist_name[hist],
                    c.declared == 0 ? "0" : c.declared == 32 ? "32" : c.declared >= ((size_t)1 << 29) ? "big" : "n",
                    c.namelen == 0 ? "0" : c.namelen <= 32 ? "short" : "hashed", c.customlen == 0 ? "0" : c.customlen % 8 ? "part" : "full");
    }
    if (vf_case % 997 == 1) vf_sample("%s", ctx);
    in_free(in); in_free(custom); gfree(out); gfree(out2); free(exp);
}

/* ascon_xof_pad / ascon_xofa_pad: documented as "absorbs enough zeroes to pad the input to the next multiple of the rate" */
static void case_xofpad(uint64_t sub, int a)
{
    size_t l1 = sub <= 40 ? (size_t)sub : rng_below(R, 100), l2 = rng_below(R, 40), outlen = 1 + rng_below(R, 60);
    size_t z = (8 - l1 % 8) % 8, total = l1 + z + l2;
    uint8_t *in = (uint8_t *)malloc(total + 1), *out = (uint8_t *)galloc(outlen, 1), *exp = (uint8_t *)malloc(outlen);
    size_t sz = a ? sizeof(ascon_xofa_state_t) : sizeof(ascon_xof_state_t);
    void *st = galloc(sz, 1);
    xofcfg_t c; memset(&c, 0, sizeof(c)); c.a = a;
    vf_progress("case=%llu %s-pad l1=%zu l2=%zu", (unsigned long long)vf_case, a ? "xofa" : "xof", l1, l2);
    rng_bytes(R, in, total); memset(in + l1, 0, z);
    ref_cxof(a, exp, outlen, 0, 0, 0, 0, 0, in, total);
    xof_init_cfg(a, st, &c, 0);
    xof_absorb(a, st, in, l1);
    if (!a) ascon_xof_pad((ascon_xof_state_t *)st); else ascon_xofa_pad((ascon_xofa_state_t *)st);
    if (rng_below(R, 2)) { if (!a) ascon_xof_pad((ascon_xof_state_t *)st); else ascon_xofa_pad((ascon_xofa_state_t *)st); } /* idempotent when aligned */
    xof_absorb(a, st, in + l1 + z, l2);
    xof_squeeze(a, st, out, outlen);
    xof_free(a, st);
    vf_eq("C03", a ? "xofa:pad" : "xof:pad", "absorb, pad, absorb vs absorbing zeroes to the rate boundary", out, exp, outlen, "\"l1\":%zu,\"l2\":%zu,\"outlen\":%zu", l1, l2, outlen);
    vf_out(out, outlen);
    vf_distinct("%s-pad|l1mod%zu|l2%s", a ? "xofa" : "xof", l1 % 8, l2 ? "y" : "0");
    /* pad and absorb after squeezing: the value is library-defined (no reference is imposed); the call sequence is part of
     * the cross-configuration transcript (C09) and must not trip the acquire/release checker */
    {
        size_t n1 = rng_below(R, 20), n2 = 1 + rng_below(R, 30);
        uint8_t *o2 = (uint8_t *)galloc(n1 + n2, 1);
        xof_init_cfg(a, st, &c, 0);
        xof_absorb(a, st, in, l1);
        xof_squeeze(a, st, o2, n1);
        if (!a) ascon_xof_pad((ascon_xof_state_t *)st); else ascon_xofa_pad((ascon_xofa_state_t *)st);
        xof_absorb(a, st, in, l2 < total ? l2 : 0);
        if (rng_below(R, 2)) { if (!a) ascon_xof_pad((ascon_xof_state_t *)st); else ascon_xofa_pad((ascon_xofa_state_t *)st); }
        xof_squeeze(a, st, o2 + n1, n2);
        xof_free(a, st);
        vf_out(o2, n1 + n2);
        vf_count("pad_after_squeeze", 1);
        gfree(o2);
    }
    free(in); free(exp); gfree(out); gfree(st);
}

/* ---------------------------------------------------------------- HASH / HASHA */
static void case_hash(uint64_t sub, int a)
{
    size_t inlen = sub <= 300 ? (size_t)sub : pick_len(R, 8, thorough ? 65536 : 4096);
    uint8_t *in = rand_in(inlen, 1), *out = (uint8_t *)galloc(32, 1), *out2 = (uint8_t *)galloc(32, 0), exp[32];
    char ctx[400], c1[24];
    const char *alg = a ? "hasha" : "hash";
    int hist = (int)rng_below(R, 4), ok;
    size_t parts[CHUNKS], np = pick_chunks(R, inlen, 8, parts, CHUNKS), off = 0, copy_at = (hist & 1) ? rng_below(R, (uint32_t)np + 1) : (size_t)-1;
    vf_progress("case=%llu %s inlen=%zu", (unsigned long long)vf_case, alg, inlen);
    ref_hash(a, exp, in, inlen);
    snprintf(ctx, sizeof(ctx), "\"alg\":\"%s\",\"inlen\":%zu,\"in\":\"%s\",\"history\":\"%s\"", alg, inlen, vf_h(in, inlen), hist_name[hist]);
    if (!a) ascon_hash(out, in, inlen); else ascon_hasha(out, in, inlen);
    ok = report("C03", alg, "oneshot", 1, out, exp, 32, ctx);
    vf_out(out, 32);
    memset(out, GPAT, 32);
    if (!a) {
        ascon_hash_state_t *st = (ascon_hash_state_t *)galloc(sizeof(*st), 1), *st2 = 0;
        if (hist & 2) { uint8_t j[40]; ascon_hash_init(st); rng_bytes(R, j, 40); ascon_hash_update(st, j, rng_below(R, 41)); if (rng_below(R, 2)) ascon_hash_finalize(st, j); ascon_hash_reinit(st); }
        else ascon_hash_init(st);
        for (size_t i = 0; i <= np; ++i) {
            if (i == copy_at) { st2 = (ascon_hash_state_t *)galloc(sizeof(*st2), 0); ascon_hash_copy(st2, st); }
            if (i == np) break;
            ascon_hash_update(st, in ? in + off : 0, parts[i]);
            if (st2) ascon_hash_update(st2, in ? in + off : 0, parts[i]);
            off += parts[i];
        }
        ascon_hash_finalize(st, out);
        if (st2) { ascon_hash_finalize(st2, out2); ascon_hash_free(st2); gfree(st2); }
        ascon_hash_free(st); gfree(st);
    } else {
        ascon_hasha_state_t *st = (ascon_hasha_state_t *)galloc(sizeof(*st), 1), *st2 = 0;
        if (hist & 2) { uint8_t j[40]; ascon_hasha_init(st); rng_bytes(R, j, 40); ascon_hasha_update(st, j, rng_below(R, 41)); if (rng_below(R, 2)) ascon_hasha_finalize(st, j); ascon_hasha_reinit(st); }
        else ascon_hasha_init(st);
        for (size_t i = 0; i <= np; ++i) {
            if (i == copy_at) { st2 = (ascon_hasha_state_t *)galloc(sizeof(*st2), 0); ascon_hasha_copy(st2, st); }
            if (i == np) break;
            ascon_hasha_update(st, in ? in + off : 0, parts[i]);
            if (st2) ascon_hasha_update(st2, in ? in + off : 0, parts[i]);
            off += parts[i];
        }
        ascon_hasha_finalize(st, out);
        if (st2) { ascon_hasha_finalize(st2, out2); ascon_hasha_free(st2); gfree(st2); }
        ascon_hasha_free(st); gfree(st);
    }
    report("C03", alg, hist_name[hist], ok, out, exp, 32, ctx);
    if (hist & 1) report("C03", alg, "copied-state", ok, out2, exp, 32, ctx);
    vf_distinct("%s|in%s|%s", alg, len_class(inlen, 8, c1), hist_name[hist]);
    vf_max("max_chunks", (long)np);
    if (vf_case % 1499 == 2) vf_sample("%s", ctx);
    in_free(in); gfree(out); gfree(out2);
}

/* ---------------------------------------------------------------- PRF / MAC / PrfShort */
static void case_prf(uint64_t sub, int fixed)
{
    size_t inlen = sub <= 300 ? (size_t)sub : pick_len(R, 32, thorough ? 65536 : 4096);
    size_t outlen = pick_len(R, 16, rng_below(R, 8) ? 100 : 2000);
    uint8_t *in = rand_in(inlen, 1), *key = rand_in(16, 0), *out = (uint8_t *)galloc(outlen, 1), *exp = (uint8_t *)malloc(outlen + 1);
    char ctx[500], c1[24], c2[24];
    const char *alg = fixed ? "prf-fixed" : "prf";
    int hist = (int)rng_below(R, 2) * 2, ok;
    size_t declared = fixed ? outlen : 0;
    ascon_prf_state_t *st = (ascon_prf_state_t *)galloc(sizeof(*st), 1);
    size_t ip[CHUNKS], op[CHUNKS], ni = pick_chunks(R, inlen, 32, ip, CHUNKS), no = pick_chunks(R, outlen, 16, op, CHUNKS), off = 0;
    if (fixed && rng_below(R, 6) == 0) declared = DECLARED[rng_below(R, sizeof(DECLARED) / sizeof(DECLARED[0]))];
    vf_progress("case=%llu %s inlen=%zu outlen=%zu", (unsigned long long)vf_case, alg, inlen, outlen);
    ref_prf(exp, outlen, declared >= ((size_t)1 << 29) ? 0 : declared, in, inlen, key);
    snprintf(ctx, sizeof(ctx), "\"alg\":\"%s\",\"inlen\":%zu,\"outlen\":%zu,\"declared\":\"%zx\",\"key\":\"%s\",\"in\":\"%s\"", alg, inlen, outlen, declared, vf_h(key, 16), vf_h(in, inlen));
    if (declared == (fixed ? outlen : 0)) {
        if (fixed) ascon_prf_fixed(out, outlen, in, inlen, key); else ascon_prf(out, outlen, in, inlen, key);
        ok = report("C04", alg, "oneshot", 1, out, exp, outlen, ctx);
        vf_out(out, outlen);
        memset(out, GPAT, outlen);
    } else ok = 0; /* only reachable through the incremental init: report under C04 */
    if (hist & 2) {
        uint8_t j[48], k2[16];
        rng_bytes(R, k2, 16); rng_bytes(R, j, 48);
        ascon_prf_init(st, k2); ascon_prf_absorb(st, j, rng_below(R, 49)); if (rng_below(R, 2)) ascon_prf_squeeze(st, j, rng_below(R, 40));
        if (fixed) ascon_prf_fixed_reinit(st, key, declared); else ascon_prf_reinit(st, key);
    } else if (fixed) ascon_prf_fixed_init(st, key, declared); else ascon_prf_init(st, key);
    for (size_t i = 0; i < ni; ++i) { ascon_prf_absorb(st, in ? in + off : 0, ip[i]); off += ip[i]; }
    off = 0;
    for (size_t i = 0; i < no; ++i) { ascon_prf_squeeze(st, out + off, op[i]); off += op[i]; }
    ascon_prf_free(st);
    report("C04", alg, hist_name[hist], ok, out, exp, outlen, ctx);
    vf_distinct("%s|in%s|out%s|%s", alg, len_class(inlen, 32, c1), len_class(outlen, 16, c2), hist_name[hist]);
    if (vf_case % 1201 == 3) vf_sample("%s", ctx);
    in_free(in); in_free(key); gfree(out); gfree(st); free(exp);
}

static void case_prf_short(uint64_t sub)
{
    size_t inlen = sub < 19 * 19 ? (size_t)(sub / 19) : rng_below(R, 40), outlen = sub < 19 * 19 ? (size_t)(sub % 19) : rng_below(R, 40);
    uint8_t *in, *key = rand_in(16, 0), *out, exp[16];
    int res, want;
    size_t in_real = inlen, out_real = outlen;
    if (sub >= 19 * 19 && rng_below(R, 4) == 0) {
        /* huge lengths (over-long by far, also k * 2^32 + r with r <= 16, which a check done after narrowing to 32 bits lets
           through): must be refused; the real buffers are 16 bytes, which is all a wrongly accepting implementation touches */
        static const size_t HUGE_[] = {
#if SIZE_MAX > 0xffffffffu
            (size_t)1 << 32, ((size_t)1 << 32) + 1, ((size_t)1 << 32) + 16, (size_t)1 << 33, ((size_t)5 << 32) + 7, (size_t)1 << 63,
#endif
            (size_t)-1, (size_t)-16, ((size_t)-1 >> 1) + 1, 0x10010, 0x100};
        size_t h = HUGE_[rng_below(R, sizeof(HUGE_) / sizeof(HUGE_[0]))];
        /* only the INPUT length is made huge: an implementation may legitimately clear all `outlen` bytes of the output when it
           refuses, so a huge outlen over a small buffer would be outside the contract; nothing needs to read an over-long input */
        in_real = 16;
        inlen = h;
        outlen = out_real = rng_below(R, 17);
    }
    in = rand_in(in_real, 1); out = (uint8_t *)galloc(out_real, 1);
    want = (inlen > 16 || outlen > 16) ? -1 : 0;
    vf_progress("case=%llu prf-short inlen=%zu outlen=%zu", (unsigned long long)vf_case, inlen, outlen);
    res = ascon_prf_short(out, outlen, in, inlen, key);
    vf_out_int(res);
    /* "reporting an error instead of output": success is 0, any non-zero result reports the error; which value, and what
       the (exactly sized, guarded) output buffer holds after an error, is not constrained by C04 */
    if ((res == 0) != (want == 0))
        vf_violation("C04", "prf-short:return", "\"inlen\":%zu,\"outlen\":%zu,\"res\":%d,\"want\":\"%s\"", inlen, outlen, res, want ? "non-zero (error)" : "0");
    if (want == 0) {
        ref_prf_short(exp, in, inlen, key);
        vf_eq("C04", "prf-short:oneshot", "PrfShort (t=128, truncated)", out, exp, outlen, "\"inlen\":%zu,\"outlen\":%zu,\"key\":\"%s\",\"in\":\"%s\"", inlen, outlen, vf_h(key, 16), vf_h(in, inlen));
        vf_out(out, outlen);
    } else {
        size_t touched = 0;
        for (size_t i = 0; i < out_real; ++i) touched += out[i] != GPAT;
        if (touched) vf_count("prf_short_error_output_touched", 1);
    }
    vf_distinct("prf-short|in%zu|out%zu", inlen > 17 ? 18 : inlen, outlen > 17 ? 18 : outlen);
    in_free(in); in_free(key); gfree(out);
}

static void case_mac(uint64_t sub)
{
    size_t inlen = sub <= 300 ? (size_t)sub : pick_len(R, 32, 4096);
    uint8_t *in = rand_in(inlen, 1), *key = rand_in(16, 0), *tag = (uint8_t *)galloc(16, 1), *t2 = (uint8_t *)galloc(16, 0), exp[16];
    char c1[24];
    int res;
    vf_progress("case=%llu mac inlen=%zu", (unsigned long long)vf_case, inlen);
    ref_mac(exp, in, inlen, key);
    ascon_mac(tag, in, inlen, key);
    vf_out(tag, 16);
    vf_eq("C04", "mac:oneshot", "ASCON-Mac tag", tag, exp, 16, "\"inlen\":%zu,\"key\":\"%s\",\"in\":\"%s\"", inlen, vf_h(key, 16), vf_h(in, inlen));
    memcpy(t2, exp, 16);
    res = ascon_mac_verify(t2, in, inlen, key);
    if (res != 0) vf_violation("C04", "mac-verify:correct-tag-rejected", "\"inlen\":%zu,\"res\":%d", inlen, res);
    for (unsigned b = 0; b < 128; ++b) {
        memcpy(t2, exp, 16); t2[b / 8] ^= (uint8_t)(1u << (b % 8));
        res = ascon_mac_verify(t2, in, inlen, key);
        if (res >= 0) vf_violation("C04", "mac-verify:wrong-tag-accepted", "\"inlen\":%zu,\"flipped_bit\":%u,\"res\":%d,\"key\":\"%s\"", inlen, b, res, vf_h(key, 16));
        vf_count("mac_verify_wrong_tags", 1);
    }
    for (int i = 0; i < 8; ++i) {
        rng_bytes(R, t2, 16);
        if (i & 1) { memcpy(t2, exp, 16); t2[rng_below(R, 16)] ^= (uint8_t)(1 + rng_below(R, 255)); }
        if (i == 6) memset(t2, 0, 16);
        if (memcmp(t2, exp, 16) == 0) continue;
        res = ascon_mac_verify(t2, in, inlen, key);
        if (res >= 0) vf_violation("C04", "mac-verify:wrong-tag-accepted", "\"inlen\":%zu,\"tag\":\"%s\",\"res\":%d", inlen, vf_h(t2, 16), res);
        vf_count("mac_verify_wrong_tags", 1);
    }
    /* wrong message, right tag */
    if (inlen) {
        uint8_t *in2 = (uint8_t *)galloc(inlen, 1);
        memcpy(in2, in, inlen); in2[rng_below(R, (uint32_t)inlen)] ^= (uint8_t)(1u << rng_below(R, 8));
        memcpy(t2, exp, 16);
        if (ascon_mac_verify(t2, in2, inlen, key) >= 0) vf_violation("C04", "mac-verify:wrong-message-accepted", "\"inlen\":%zu", inlen);
        gfree(in2);
    }
    vf_distinct("mac|in%s", len_class(inlen, 32, c1));
    in_free(in); in_free(key); gfree(tag); gfree(t2);
}

/* ---------------------------------------------------------------- HMAC / HMACA */
static void case_hmac(uint64_t sub, int a)
{
    size_t keylen = sub <= 130 ? (size_t)sub : (rng_below(R, 6) == 0 ? 1024 : rng_below(R, 131));
    size_t inlen = sub <= 130 ? rng_below(R, 100) : pick_len(R, 8, thorough ? 65536 : 4096);
    uint8_t *key = rand_in(keylen, 1), *in = rand_in(inlen, 1), *out = (uint8_t *)galloc(32, 1), exp[32];
    char ctx[500], c1[24];
    const char *alg = a ? "hmaca" : "hmac";
    int hist = (int)rng_below(R, 2) * 2, ok;
    size_t parts[CHUNKS], np = pick_chunks(R, inlen, 8, parts, CHUNKS), off = 0;
    vf_progress("case=%llu %s keylen=%zu inlen=%zu", (unsigned long long)vf_case, alg, keylen, inlen);
    ref_hmac(a, exp, key, keylen, in, inlen);
    snprintf(ctx, sizeof(ctx), "\"alg\":\"%s\",\"keylen\":%zu,\"inlen\":%zu,\"key\":\"%s\",\"in\":\"%s\",\"history\":\"%s\"", alg, keylen, inlen, vf_h(key, keylen), vf_h(in, inlen), hist_name[hist]);
    if (!a) ascon_hmac(out, key, keylen, in, inlen); else ascon_hmaca(out, key, keylen, in, inlen);
    ok = report("C04", alg, "oneshot", 1, out, exp, 32, ctx);
    vf_out(out, 32);
    memset(out, GPAT, 32);
    if (!a) {
        ascon_hmac_state_t *st = (ascon_hmac_state_t *)galloc(sizeof(*st), 1);
        if (hist & 2) { uint8_t j[40]; rng_bytes(R, j, 40); ascon_hmac_init(st, j, rng_below(R, 41)); ascon_hmac_update(st, j, rng_below(R, 41)); ascon_hmac_reinit(st, key, keylen); }
        else ascon_hmac_init(st, key, keylen);
        for (size_t i = 0; i < np; ++i) { ascon_hmac_update(st, in ? in + off : 0, parts[i]); off += parts[i]; }
        ascon_hmac_finalize(st, key, keylen, out);
        ascon_hmac_free(st); gfree(st);
    } else {
        ascon_hmaca_state_t *st = (ascon_hmaca_state_t *)galloc(sizeof(*st), 1);
        if (hist & 2) { uint8_t j[40]; rng_bytes(R, j, 40); ascon_hmaca_init(st, j, rng_below(R, 41)); ascon_hmaca_update(st, j, rng_below(R, 41)); ascon_hmaca_reinit(st, key, keylen); }
        else ascon_hmaca_init(st, key, keylen);
        for (size_t i = 0; i < np; ++i) { ascon_hmaca_update(st, in ? in + off : 0, parts[i]); off += parts[i]; }
        ascon_hmaca_finalize(st, key, keylen, out);
        ascon_hmaca_free(st); gfree(st);
    }
    report("C04", alg, hist_name[hist], ok, out, exp, 32, ctx);
    vf_distinct("%s|key%s|in%s|%s", alg, keylen == 0 ? "0" : keylen < 64 ? "<64" : keylen == 64 ? "64" : keylen <= 130 ? ">64" : "big", len_class(inlen, 8, c1), hist_name[hist]);
    if (vf_case % 1301 == 4) vf_sample("%s", ctx);
    in_free(key); in_free(in); gfree(out);
}

/* ---------------------------------------------------------------- KMAC / KMACA / KDF / KDFA */
static void case_kmac(uint64_t sub, int a, int kdf)
{
    size_t keylen = rng_below(R, 6) == 0 ? pick_len(R, 8, 1024) : rng_below(R, 71);
    size_t inlen = kdf ? 0 : (sub <= 300 ? (size_t)sub : pick_len(R, 8, 4096));
    size_t outlen = rng_below(R, 3) == 0 ? 32 : (sub % 7 == 0 ? 1000 : rng_below(R, 71));
    size_t customlen = rng_below(R, 3) == 0 ? 0 : (rng_below(R, 8) == 0 ? 1024 : rng_below(R, 41));
    uint8_t *key = rand_in(keylen, 1), *in = kdf ? 0 : rand_in(inlen, 1), *custom = rand_in(customlen, 1);
    uint8_t *out = (uint8_t *)galloc(outlen, 1), *exp = (uint8_t *)malloc(outlen + 1);
    char ctx[700], alg[16], c1[24];
    int hist = (int)rng_below(R, 2) * 2, ok;
    size_t ip[CHUNKS], op[CHUNKS], ni = pick_chunks(R, inlen, 8, ip, CHUNKS), no = pick_chunks(R, outlen, 8, op, CHUNKS), off = 0;
    snprintf(alg, sizeof(alg), "%s%s", kdf ? "kdf" : "kmac", a ? "a" : "");
    vf_progress("case=%llu %s keylen=%zu inlen=%zu customlen=%zu outlen=%zu", (unsigned long long)vf_case, alg, keylen, inlen, customlen, outlen);
    if (kdf) ref_kdf(a, exp, outlen, key, keylen, custom, customlen);
    else ref_kmac(a, exp, outlen, key, keylen, in, inlen, custom, customlen);
    snprintf(ctx, sizeof(ctx), "\"alg\":\"%s\",\"keylen\":%zu,\"inlen\":%zu,\"customlen\":%zu,\"outlen\":%zu,\"key\":\"%s\",\"custom\":\"%s\",\"in\":\"%s\",\"history\":\"%s\"",
             alg, keylen, inlen, customlen, outlen, vf_h(key, keylen), vf_h(custom, customlen), vf_h(in, inlen), hist_name[hist]);
    if (kdf) { if (!a) ascon_kdf(out, outlen, key, keylen, custom, customlen); else ascon_kdfa(out, outlen, key, keylen, custom, customlen); }
    else { if (!a) ascon_kmac(key, keylen, in, inlen, custom, customlen, out, outlen); else ascon_kmaca(key, keylen, in, inlen, custom, customlen, out, outlen); }
    ok = report(kdf ? "C05" : "C04", alg, "oneshot", 1, out, exp, outlen, ctx);
    vf_out(out, outlen);
    memset(out, GPAT, outlen);
#define KM_INC(ST, INIT, REINIT, ABSORB, SQUEEZE, FREE)                                                   \
    {   ST *st = (ST *)galloc(sizeof(ST), 1);                                                             \
        if (hist & 2) { uint8_t j[40]; rng_bytes(R, j, 40); INIT(st, j, rng_below(R, 41), j, rng_below(R, 20), rng_below(R, 50)); SQUEEZE(st, j, rng_below(R, 30)); REINIT(st, key, keylen, custom, customlen, outlen); } \
        else INIT(st, key, keylen, custom, customlen, outlen);                                            \
        ABSORB                                                                                            \
        off = 0;                                                                                          \
        for (size_t i = 0; i < no; ++i) { SQUEEZE(st, out + off, op[i]); off += op[i]; }                  \
        FREE(st); gfree(st); }
    if (kdf) {
        (void)ni; (void)ip;
        if (!a) KM_INC(ascon_kdf_state_t, ascon_kdf_init, ascon_kdf_reinit, ;, ascon_kdf_squeeze, ascon_kdf_free)
        else KM_INC(ascon_kdfa_state_t, ascon_kdfa_init, ascon_kdfa_reinit, ;, ascon_kdfa_squeeze, ascon_kdfa_free)
    } else {
        if (!a) KM_INC(ascon_kmac_state_t, ascon_kmac_init, ascon_kmac_reinit,
                       for (size_t i = 0; i < ni; ++i) { ascon_kmac_absorb(st, in ? in + off : 0, ip[i]); off += ip[i]; }, ascon_kmac_squeeze, ascon_kmac_free)
        else KM_INC(ascon_kmaca_state_t, ascon_kmaca_init, ascon_kmaca_reinit,
                    for (size_t i = 0; i < ni; ++i) { ascon_kmaca_absorb(st, in ? in + off : 0, ip[i]); off += ip[i]; }, ascon_kmaca_squeeze, ascon_kmaca_free)
    }
    report(kdf ? "C05" : "C04", alg, hist_name[hist], ok, out, exp, outlen, ctx);
    /* the declared output length of the incremental init is a parameter of its own (0 = arbitrary length): squeeze
     * `outlen` bytes from a state initialised with a DIFFERENT declared length and compare with the reference */
    {
        static const size_t DECL[] = {0, 0, 1, 16, 31, 32, 33, 64, 1000, (size_t)1 << 29,
#if SIZE_MAX > 0xffffffffu
            ((size_t)1 << 32) + 32, ((size_t)1 << 33) + 1,
#else
            ((size_t)1 << 29) + 32, ((size_t)1 << 30) + 1,
#endif
        };
        size_t declared = DECL[rng_below(R, 12)];
        uint64_t d = declared >= ((size_t)1 << 29) ? 0 : declared;      /* customised XOF: 2^29 bytes and above mean "arbitrary length" */
        char key2[64];
        if (kdf) ref_cxof(a, exp, outlen, d, (const uint8_t *)"KDF", 3, custom, customlen, key, keylen);
        else { uint8_t *x = (uint8_t *)malloc(keylen + inlen + 1); if (keylen) memcpy(x, key, keylen); if (inlen) memcpy(x + keylen, in, inlen);
               ref_cxof(a, exp, outlen, d, (const uint8_t *)"KMAC", 4, custom, customlen, x, keylen + inlen); free(x); }
        memset(out, GPAT, outlen);
#define KM_DECL(ST, INIT, ABSORB, SQUEEZE, FREE) { ST *st = (ST *)galloc(sizeof(ST), 0); INIT(st, key, keylen, custom, customlen, declared); ABSORB SQUEEZE(st, out, outlen); FREE(st); gfree(st); }
        if (kdf) { if (!a) KM_DECL(ascon_kdf_state_t, ascon_kdf_init, ;, ascon_kdf_squeeze, ascon_kdf_free) else KM_DECL(ascon_kdfa_state_t, ascon_kdfa_init, ;, ascon_kdfa_squeeze, ascon_kdfa_free) }
        else { if (!a) KM_DECL(ascon_kmac_state_t, ascon_kmac_init, ascon_kmac_absorb(st, in, inlen);, ascon_kmac_squeeze, ascon_kmac_free)
               else KM_DECL(ascon_kmaca_state_t, ascon_kmaca_init, ascon_kmaca_absorb(st, in, inlen);, ascon_kmaca_squeeze, ascon_kmaca_free) }
        snprintf(key2, sizeof(key2), "%s:declared-length", alg);
        vf_eq(kdf ? "C05" : "C04", key2, "init with a declared length, squeeze another length", out, exp, outlen, "\"declared\":%zu,%s", declared, ctx);
        vf_distinct("%s|declared%s|out%s", alg, declared == 0 ? "0" : declared == 32 ? "32" : "n", outlen == 0 ? "0" : outlen == 32 ? "32" : "n");
    }
    vf_distinct("%s|key%s|in%s|cust%s|out%s|%s", alg, keylen == 0 ? "0" : keylen % 8 ? "part" : "full", len_class(inlen, 8, c1),
                customlen == 0 ? "0" : customlen % 8 ? "part" : "full", outlen == 32 ? "32-precomputed" : outlen == 0 ? "0" : outlen < 32 ? "<32" : ">32", hist_name[hist]);
    if (vf_case % 1103 == 5) vf_sample("%s", ctx);
    in_free(key); in_free(in); in_free(custom); gfree(out); free(exp);
}

/* ---------------------------------------------------------------- HKDF / HKDFA */
static void case_hkdf(uint64_t sub, int a)
{
    size_t keylen = rng_below(R, 8) == 0 ? 1024 : rng_below(R, 131), saltlen = rng_below(R, 3) == 0 ? 0 : rng_below(R, 131), infolen = rng_below(R, 3) == 0 ? 0 : rng_below(R, 71);
    size_t outlen = sub % 4 == 0 ? 8128 + rng_below(R, 65) : sub % 4 == 1 ? rng_below(R, 101) : pick_len(R, 32, 2000);
    uint8_t *key = rand_in(keylen, 1), *salt = rand_in(saltlen, 1), *info = rand_in(infolen, 1);
    uint8_t *out, *exp = (uint8_t *)malloc(8160 + 1);
    const char *alg = a ? "hkdfa" : "hkdf";
    size_t out_real = outlen;   /* (a huge outlen over a small buffer would be outside the API contract: a refusing implementation may clear all outlen bytes) */
    out = (uint8_t *)galloc(out_real, 1);
    char ctx[600];
    int res, want = outlen > 8160 ? -1 : 0, ok = 1;
    vf_progress("case=%llu %s keylen=%zu saltlen=%zu infolen=%zu outlen=%zu", (unsigned long long)vf_case, alg, keylen, saltlen, infolen, outlen);
    ref_hkdf(a, exp, 8160, key, keylen, salt, saltlen, info, infolen);
    snprintf(ctx, sizeof(ctx), "\"alg\":\"%s\",\"keylen\":%zu,\"saltlen\":%zu,\"infolen\":%zu,\"outlen\":%zu,\"key\":\"%s\",\"salt\":\"%s\",\"info\":\"%s\"",
             alg, keylen, saltlen, infolen, outlen, vf_h(key, keylen), vf_h(salt, saltlen), vf_h(info, infolen));
    res = a ? ascon_hkdfa(out, outlen, key, keylen, salt, saltlen, info, infolen) : ascon_hkdf(out, outlen, key, keylen, salt, saltlen, info, infolen);
    vf_out_int(res);
    if ((res == 0) != (want == 0)) { char k[64]; snprintf(k, sizeof(k), "%s:oneshot-return", alg); vf_violation("C05", k, "\"res\":%d,\"want\":\"%s\",%s", res, want ? "non-zero (error)" : "0", ctx); ok = 0; }
    if (want == 0) { ok &= report("C05", alg, "oneshot", 1, out, exp, outlen, ctx); vf_out(out, outlen); }
    /* incremental: expand in random pieces, possibly beyond the 255-block limit */
    {
        size_t total = rng_below(R, 3) == 0 ? 8160 + rng_below(R, 200) : (rng_below(R, 2) ? 7900 + rng_below(R, 400) : rng_below(R, 600));
        size_t done = 0;
        uint8_t *big = (uint8_t *)galloc(total, 1);
        char k[64];
#define HK_INC(ST, EXTRACT, EXPAND, FREE)                                                                 \
        {   ST *st = (ST *)galloc(sizeof(ST), 1);                                                         \
            EXTRACT(st, key, keylen, salt, saltlen);                                                      \
            while (done < total || rng_below(R, 4) == 0) {                                                \
                size_t n = rng_below(R, 5) == 0 ? 0 : rng_below(R, 4) == 0 ? rng_below(R, 3000) : rng_below(R, 100);  \
                int r2, w2;                                                                               \
                if (n > total - done) n = total - done;                                                   \
                memset(big + done, GPAT, n);                                                              \
                r2 = EXPAND(st, info, infolen, big + done, n);                                            \
                w2 = (n > 0 && done + n > 8160) ? -1 : 0;                                                            \
                vf_out_int(r2 != 0);                                                                      \
                /* a request is refused (non-zero result) iff it would pass 255 blocks; an empty request after a refusal   \
                   is not constrained */                                                                  \
                if ((r2 == 0) != (w2 == 0) && !(n == 0 && done > 8160)) { snprintf(k, sizeof(k), "%s:expand-return", alg); vf_violation("C05", k, "\"done\":%zu,\"request\":%zu,\"res\":%d,\"want\":\"%s\",%s", done, n, r2, w2 ? "non-zero (error)" : "0", ctx); } \
                {   size_t good = done >= 8160 ? 0 : (done + n > 8160 ? 8160 - done : n);                  \
                    snprintf(k, sizeof(k), "%s:expand-bytes", alg);                                       \
                    if (good == n) {                                                                      \
                        /* fully servable: the one-shot call of length done+n exists -> C07 as well as C05 */ \
                        if (ok) vf_eq("C07", k, "expand output", big + done, exp + done, n, "\"done\":%zu,\"request\":%zu,%s", done, n, ctx); \
                        vf_eq("C05", k, "expand output", big + done, exp + done, n, "\"done\":%zu,\"request\":%zu,%s", done, n, ctx); \
                    } else {                                                                              \
                        /* refused request: the part that cannot be served must be zero; the servable prefix may be served \
                           (then it must be right) or zero-filled with the rest */                        \
                        size_t nz = 0;                                                                    \
                        for (size_t z = 0; z < good; ++z) nz += big[done + z] != 0;                       \
                        if (nz) vf_eq("C05", k, "expand output (served prefix of a refused request)", big + done, exp + done, good, "\"done\":%zu,\"request\":%zu,%s", done, n, ctx); \
                        else if (good) vf_count("hkdf_refused_prefix_zero_filled", 1);                    \
                    }                                                                                     \
                    for (size_t z = good; z < n; ++z)                                                     \
                        if (big[done + z] != 0) { snprintf(k, sizeof(k), "%s:expand-no-zero-fill", alg); vf_violation("C05", k, "\"done\":%zu,\"request\":%zu,\"at\":%zu,\"byte\":%u,%s", done, n, z, big[done + z], ctx); break; } \
                    if (good < n) vf_count("hkdf_refusals", 1); }                                         \
                if (done + n <= 8160) vf_out(big + done, n);                                              \
                done += n;                                                                                \
                if (done >= total && rng_below(R, 2)) break;                                              \
            }                                                                                             \
            FREE(st); gfree(st); }
        if (!a) HK_INC(ascon_hkdf_state_t, ascon_hkdf_extract, ascon_hkdf_expand, ascon_hkdf_free)
        else HK_INC(ascon_hkdfa_state_t, ascon_hkdfa_extract, ascon_hkdfa_expand, ascon_hkdfa_free)
        vf_distinct("%s|out%s|total%s|salt%s|info%s", alg, outlen > 8160 ? ">limit" : outlen == 8160 ? "=limit" : outlen % 32 ? "part" : "full",
                    total > 8160 ? ">limit" : "<=limit", saltlen ? "y" : "0", infolen ? "y" : "0");
        gfree(big);
    }
    if (vf_case % 701 == 6) vf_sample("%s", ctx);
    in_free(key); in_free(salt); in_free(info); gfree(out); free(exp);
}

/* ---------------------------------------------------------------- PBKDF2 */
static void case_pbkdf2(uint64_t sub, int hmac)
{
    static const unsigned long counts[] = {0, 1, 2, 3, 4, 7, 100};
    unsigned long count = counts[sub % 7];
    size_t pwlen = rng_below(R, 8) == 0 ? 130 + rng_below(R, 900) : rng_below(R, 71), saltlen = rng_below(R, 4) == 0 ? 0 : rng_below(R, 71);
    size_t outlen = rng_below(R, 4) == 0 ? 32 * (1 + rng_below(R, 5)) : rng_below(R, 170);
    uint8_t *pw, *salt, *out, *exp;
    const char *alg = hmac ? "pbkdf2-hmac" : "pbkdf2";
    char ctx[600];
    if (rng_below(R, 40) == 0) {        /* more than 255 / 256 blocks: the block index needs its second byte (and there is no HKDF-like limit) */
        static const size_t LONG_[] = {8160, 8161, 8192, 8193, 8224, 9607, 16640, 65536 + 33};
        outlen = LONG_[rng_below(R, 8)];
        if (count > 2) count = 1 + count % 2;
        if (pwlen > 70) pwlen = 70;
    }
    pw = rand_in(pwlen, 1); salt = rand_in(saltlen, 1); out = (uint8_t *)galloc(outlen, 1); exp = (uint8_t *)malloc(outlen + 1);
    if (thorough && sub % 50 == 49 && outlen < 8000) count = 8192;
    vf_progress("case=%llu %s pwlen=%zu saltlen=%zu outlen=%zu count=%lu", (unsigned long long)vf_case, alg, pwlen, saltlen, outlen, count);
    if (hmac) { ref_pbkdf2_hmac(exp, outlen, pw, pwlen, salt, saltlen, count); ascon_pbkdf2_hmac(out, outlen, pw, pwlen, salt, saltlen, count); }
    else { ref_pbkdf2(exp, outlen, pw, pwlen, salt, saltlen, count); ascon_pbkdf2(out, outlen, pw, pwlen, salt, saltlen, count); }
    snprintf(ctx, sizeof(ctx), "\"alg\":\"%s\",\"pwlen\":%zu,\"saltlen\":%zu,\"outlen\":%zu,\"count\":%lu,\"pw\":\"%s\",\"salt\":\"%s\"", alg, pwlen, saltlen, outlen, count, vf_h(pw, pwlen), vf_h(salt, saltlen));
    report("C05", alg, "oneshot", 1, out, exp, outlen, ctx);
    vf_out(out, outlen);
    vf_distinct("%s|count%lu|blocks%zu%s|pw%s|salt%s", alg, count, outlen / 32, outlen % 32 ? "+" : "", pwlen == 0 ? "0" : pwlen > 64 ? ">64" : "n", saltlen ? "y" : "0");
    if (vf_case % 601 == 7) vf_sample("%s", ctx);
    in_free(pw); in_free(salt); gfree(out); free(exp);
}

/* ---------------------------------------------------------------- dispatch */
typedef struct { const char *prop; void (*fn)(uint64_t sub, int a, int b); int a, b; } alg_t;
static void w_hash(uint64_t s, int a, int b) { (void)b; case_hash(s, a); }
static void w_xof(uint64_t s, int a, int b) { case_xof(s, a, b); }
static void w_xofpad(uint64_t s, int a, int b) { (void)b; case_xofpad(s, a); }
static void w_prf(uint64_t s, int a, int b) { (void)b; case_prf(s, a); }
static void w_prfshort(uint64_t s, int a, int b) { (void)a; (void)b; case_prf_short(s); }
static void w_mac(uint64_t s, int a, int b) { (void)a; (void)b; case_mac(s); }
static void w_hmac(uint64_t s, int a, int b) { (void)b; case_hmac(s, a); }
static void w_kmac(uint64_t s, int a, int b) { case_kmac(s, a, b); }
static void w_hkdf(uint64_t s, int a, int b) { (void)b; case_hkdf(s, a); }
static void w_pbkdf2(uint64_t s, int a, int b) { (void)b; case_pbkdf2(s, a); }

static const alg_t ALGS[] = {
    {"C03", w_hash, 0, 0}, {"C03", w_hash, 1, 0},
    {"C03", w_xof, 0, 0}, {"C03", w_xof, 1, 0}, {"C03", w_xof, 0, 1}, {"C03", w_xof, 1, 1}, {"C03", w_xof, 0, 2}, {"C03", w_xof, 1, 2}, {"C03", w_xofpad, 0, 0}, {"C03", w_xofpad, 1, 0},
    {"C04", w_prf, 0, 0}, {"C04", w_prf, 1, 0}, {"C04", w_prfshort, 0, 0}, {"C04", w_mac, 0, 0},
    {"C04", w_hmac, 0, 0}, {"C04", w_hmac, 1, 0}, {"C04", w_kmac, 0, 0}, {"C04", w_kmac, 1, 0},
    {"C05", w_kmac, 0, 1}, {"C05", w_kmac, 1, 1}, {"C05", w_hkdf, 0, 0}, {"C05", w_hkdf, 1, 0}, {"C05", w_pbkdf2, 0, 0}, {"C05", w_pbkdf2, 1, 0},
};
#define NALG (sizeof(ALGS) / sizeof(ALGS[0]))

int main(int argc, char **argv)
{
    vf_args_t a;
    uint64_t idx, n;
    rng_t r;
    vf_prop = "C03";
    vf_parse_args(argc, argv, &a);
    thorough = a.thorough;
    only_prop = a.arg && strcmp(a.arg, "C07") && strcmp(a.arg, "all") ? a.arg : 0;
    n = (uint64_t)NALG * 301 + (uint64_t)(a.cases >= 0 ? a.cases : 20000);
    R = &r;
    for (idx = 0; idx < n; ++idx) {
        const alg_t *al = &ALGS[idx % NALG];
        if (!vf_mine(&a, idx)) continue;
        if (only_prop && strcmp(only_prop, al->prop)) continue;
        rng_seed(&r, a.seed ^ 0x5117, idx);
        vf_case_begin(idx);
        al->fn(idx / NALG, al->a, al->b);
        vf_case_end();
        vf_count("cases", 1);
    }
    gcheck_all("end");
    vf_finish();
    return 0;
}
