/* C13: after free / clear() / destructor the bytes of an object must not depend on the
 * secrets it held.  Every object type is driven through the same public operation
 * history twice in the same storage (pre-filled 0xA5): once with secret set A, once
 * with secret set B (same lengths, same public inputs, same TRNG tape).  The raw bytes
 * of the storage after the release must be identical in the two runs.  Liveness: the
 * bytes BEFORE the release must differ (otherwise the case observed nothing).
 * This file is compiled at -O3 without sanitizers: the optimiser is the shipped one.
 */
#include "common.h"
#include "trng_tape.h"
#include <ascon/aead.h>
#include <ascon/aead-masked.h>
#include <ascon/siv.h>
#include <ascon/isap.h>
#include <ascon/hash.h>
#include <ascon/xof.h>
#include <ascon/prf.h>
#include <ascon/hmac.h>
#include <ascon/kmac.h>
#include <ascon/kdf.h>
#include <ascon/hkdf.h>
#include <ascon/random.h>
#include <ascon/masking.h>
extern "C" {
#include "masking/ascon-masked-state.h"
}
#include <new>

#define SECLEN 512
typedef struct { const uint8_t *sec; rng_t shape; uint8_t *live; size_t size; int path; } env_t;
/* path: 0 = primary release (free / destructor), 1 = alternative (clear() then destructor; or reinit-free) */

static __attribute__((noinline)) void snap(uint8_t *dst, const volatile uint8_t *src, size_t n)
{
    for (size_t i = 0; i < n; ++i) dst[i] = src[i];
}
/* LIVE is invoked immediately before the release call.  Any randomness the release itself draws (a release may legitimately
 * leave fresh random bytes behind) must be the same in both runs, so the tape is re-seeded here with a public value: what is
 * still compared is whether the bytes left behind depend on what the object held. */
#define LIVE(e, obj) do { snap((e)->live, (const volatile uint8_t *)(obj), (e)->size); tape_set(TAPE_RANDOM, 0x5eed0f7e1ea5eULL); } while (0)

static size_t len(env_t *e, size_t max) { return rng_below(&e->shape, (uint32_t)max + 1); }
static uint8_t pubbuf[256];
static const uint8_t *pub(env_t *e, size_t n) { for (size_t i = 0; i < n; ++i) pubbuf[i] = (uint8_t)rng_u64(&e->shape); return pubbuf; }
static uint8_t sink[20000];

/* ---------------------------------------------------------------- C objects */
static void o_state(void *p, env_t *e)
{
    ascon_state_t *s = (ascon_state_t *)p;
    ascon_init(s);
    ascon_overwrite_bytes(s, e->sec, 0, 40);
    if (len(e, 1)) ascon_permute(s, (uint8_t)len(e, 11));
    LIVE(e, s);
    ascon_free(s);
}
#define O_AEAD(P, ST) static void o_##P(void *p, env_t *e) { \
    ST *s = (ST *)p; size_t adl = len(e, 40), ml = len(e, 100), ml2 = len(e, 30); int fin = (int)len(e, 2); \
    P##_aead_init(s, pub(e, 16), e->sec); \
    P##_aead_start(s, e->sec + 32, adl); \
    P##_aead_encrypt_block(s, e->sec + 80, sink, ml); \
    if (fin == 1) P##_aead_encrypt_finalize(s, sink); \
    if (fin == 2) { P##_aead_encrypt_block(s, e->sec + 200, sink, ml2); } \
    LIVE(e, s); \
    if (e->path) P##_aead_reinit(s, pub(e, 16), e->sec + 300); \
    if (e->path) LIVE(e, s); \
    P##_aead_free(s); }
O_AEAD(ascon128, ascon128_state_t) O_AEAD(ascon128a, ascon128a_state_t) O_AEAD(ascon80pq, ascon80pq_state_t)

#define O_HASH(P, ST) static void o_##P(void *p, env_t *e) { \
    ST *s = (ST *)p; size_t l1 = 1 + len(e, 90), l2 = len(e, 20); int fin = (int)len(e, 1); \
    P##_init(s); P##_update(s, e->sec, l1); P##_update(s, e->sec + 100, l2); \
    if (fin) P##_finalize(s, sink); \
    LIVE(e, s); \
    if (e->path) { P##_reinit(s); P##_update(s, e->sec + 200, l1); LIVE(e, s); } \
    P##_free(s); }
O_HASH(ascon_hash, ascon_hash_state_t) O_HASH(ascon_hasha, ascon_hasha_state_t)

#define O_XOF(P, ST) static void o_##P(void *p, env_t *e) { \
    ST *s = (ST *)p; size_t l1 = 1 + len(e, 90), ol = len(e, 50), cl = len(e, 20); int kind = (int)len(e, 2); \
    if (kind == 0) P##_init(s); else if (kind == 1) P##_init_fixed(s, 1 + len(e, 60)); else P##_init_custom(s, "wipe", e->sec + 400, cl, 0); \
    P##_absorb(s, e->sec, l1); if (ol) P##_squeeze(s, sink, ol); \
    if (len(e, 3) == 0) { P##_squeeze(s, sink, 300 + len(e, 700)); if (len(e, 1)) P##_absorb(s, e->sec + 300, len(e, 30)); } /* long squeeze, absorb after squeeze */ \
    LIVE(e, s); \
    P##_free(s); }
O_XOF(ascon_xof, ascon_xof_state_t) O_XOF(ascon_xofa, ascon_xofa_state_t)

static void o_prf(void *p, env_t *e)
{
    ascon_prf_state_t *s = (ascon_prf_state_t *)p;
    size_t l1 = len(e, 90), ol = len(e, 50);
    if (len(e, 1)) ascon_prf_init(s, e->sec); else ascon_prf_fixed_init(s, e->sec, 16);
    ascon_prf_absorb(s, e->sec + 32, l1); if (ol) ascon_prf_squeeze(s, sink, ol);
    LIVE(e, s);
    ascon_prf_free(s);
}
#define O_HMAC(P, ST) static void o_##P(void *p, env_t *e) { \
    ST *s = (ST *)p; size_t kl = 1 + len(e, 99), l1 = len(e, 90); int fin = (int)len(e, 1); \
    P##_init(s, e->sec, kl); P##_update(s, e->sec + 128, l1); if (fin) P##_finalize(s, e->sec, kl, sink); \
    LIVE(e, s); \
    P##_free(s); }
O_HMAC(ascon_hmac, ascon_hmac_state_t) O_HMAC(ascon_hmaca, ascon_hmaca_state_t)
#define O_KMAC(P, ST) static void o_##P(void *p, env_t *e) { \
    ST *s = (ST *)p; size_t kl = 1 + len(e, 60), l1 = len(e, 90), ol = len(e, 40), cl = len(e, 10); \
    P##_init(s, e->sec, kl, pub(e, cl), cl, len(e, 1) ? 32 : 20); P##_absorb(s, e->sec + 128, l1); if (ol) P##_squeeze(s, sink, ol); \
    LIVE(e, s); \
    P##_free(s); }
O_KMAC(ascon_kmac, ascon_kmac_state_t) O_KMAC(ascon_kmaca, ascon_kmaca_state_t)
#define O_KDF(P, ST) static void o_##P(void *p, env_t *e) { \
    ST *s = (ST *)p; size_t kl = 1 + len(e, 60), ol = len(e, 40); \
    P##_init(s, e->sec, kl, 0, 0, 32); if (ol) P##_squeeze(s, sink, ol); \
    LIVE(e, s); \
    P##_free(s); }
O_KDF(ascon_kdf, ascon_kdf_state_t) O_KDF(ascon_kdfa, ascon_kdfa_state_t)
#define O_HKDF(P, ST) static void o_##P(void *p, env_t *e) { \
    ST *s = (ST *)p; size_t kl = 1 + len(e, 60), sl = len(e, 30), ol = len(e, 100); int big = (int)len(e, 3) == 0; \
    P##_extract(s, e->sec, kl, e->sec + 100, sl); if (ol) P##_expand(s, pub(e, 5), 5, sink, ol); \
    if (big) { size_t more = 8000 + len(e, 300); P##_expand(s, pub(e, 5), 5, sink, more); if (len(e, 1)) P##_expand(s, pub(e, 5), 5, sink, len(e, 40)); } /* up to and across the 255-block limit */ \
    LIVE(e, s); \
    P##_free(s); }
O_HKDF(ascon_hkdf, ascon_hkdf_state_t) O_HKDF(ascon_hkdfa, ascon_hkdfa_state_t)

static void o_random(void *p, env_t *e)
{
    ascon_random_state_t *s = (ascon_random_state_t *)p;
    size_t fl = len(e, 64), ol = len(e, 100);
    /* the entropy is the secret: the tape seed comes from the secret set */
    uint64_t ts; memcpy(&ts, e->sec, 8); tape_set(TAPE_RANDOM, ts);
    ascon_random_init(s);
    if (ol) ascon_random_fetch(s, sink, ol);
    if (len(e, 3) == 0) { ascon_random_fetch(s, sink, 16384 + len(e, 100)); ascon_random_fetch(s, sink, len(e, 40)); } /* forces the automatic reseed */
    if (fl) ascon_random_feed(s, e->sec + 64, fl);
    if (len(e, 1)) ascon_random_reseed(s);
    LIVE(e, s);
    ascon_random_free(s);
}
#define O_ISAPKEY(P, KT) static void o_##P##_isapkey(void *p, env_t *e) { \
    KT *k = (KT *)p; size_t ml = len(e, 40); \
    P##_isap_aead_init(k, e->sec); \
    if (len(e, 1)) { size_t cl; P##_isap_aead_encrypt(sink, &cl, e->sec + 64, ml, 0, 0, pub(e, 16), k); } \
    if (e->path) { uint8_t sv[80]; P##_isap_aead_save_key(k, sv); P##_isap_aead_free(k); P##_isap_aead_load_key(k, sv); } \
    LIVE(e, k); \
    P##_isap_aead_free(k); }
O_ISAPKEY(ascon128, ascon128_isap_aead_key_t) O_ISAPKEY(ascon128a, ascon128a_isap_aead_key_t) O_ISAPKEY(ascon80pq, ascon80pq_isap_aead_key_t)

static void o_mkey128(void *p, env_t *e)
{
    ascon_masked_key_128_t *k = (ascon_masked_key_128_t *)p;
    ascon_masked_key_128_init(k, e->sec);
    if (len(e, 1)) ascon_masked_key_128_randomize(k);
    LIVE(e, k);
    ascon_masked_key_128_free(k);
}
static void o_mkey160(void *p, env_t *e)
{
    ascon_masked_key_160_t *k = (ascon_masked_key_160_t *)p;
    ascon_masked_key_160_init(k, e->sec);
    if (len(e, 1)) ascon_masked_key_160_randomize(k);
    LIVE(e, k);
    ascon_masked_key_160_free(k);
}
static void o_mstate(void *p, env_t *e)
{
    ascon_masked_state_t *s = (ascon_masked_state_t *)p;
    ascon_state_t x1;
    ascon_trng_state_t trng;
    uint64_t preserve[3] = {1, 2, 3};
    ascon_trng_init(&trng);
    ascon_init(&x1); ascon_overwrite_bytes(&x1, e->sec, 0, 40);
    ascon_masked_state_init(s);
    ascon_x2_copy_from_x1(s, &x1, &trng);
    if (len(e, 1)) ascon_x2_permute(s, (uint8_t)len(e, 11), preserve);
    ascon_free(&x1);
    LIVE(e, s);
    ascon_masked_state_free(s);
    ascon_trng_free(&trng);
}

/* ---------------------------------------------------------------- C++ objects */
template <class T> struct mk { static T *key_ctor(void *p, const uint8_t *k, unsigned) { return new (p) T(k); } };
#define MK_ISAP(T) template <> struct mk<ascon::T> { static ascon::T *key_ctor(void *p, const uint8_t *k, unsigned kl) { return new (p) ascon::T(k, kl); } };
MK_ISAP(isap128) MK_ISAP(isap128a) MK_ISAP(isap80pq)
template <class T> static void o_cipher(void *p, env_t *e, unsigned klen)
{
    size_t ml = len(e, 60), adl = len(e, 20);
    T *o;
    if (len(e, 1)) { o = new (p) T(); o->set_key(e->sec, klen); } else o = mk<T>::key_ctor(p, e->sec, klen);
    o->set_nonce(e->sec + 32, 16);
    if (len(e, 1)) o->encrypt(sink, e->sec + 64, ml, e->sec + 200, adl);
    LIVE(e, o);
    if (e->path) o->clear();
    else if (len(e, 1)) o->~T();
    else { ascon::aead *base = o; base->~aead(); vf_count("destroyed_through_base_pointer", 1); }   /* as delete on an ascon::aead* / unique_ptr<ascon::aead> does */
}
/* for path 1 the caller snapshots the storage after this function returns (after clear(), before the destructor);
 * the destructor is then run by cleanup() */
template <class T> static void d_cipher(void *p) { ((T *)p)->~T(); }

#define O_CIPHER(T, KL) static void o_cpp_##T(void *p, env_t *e) { o_cipher<ascon::T>(p, e, KL); } static void d_cpp_##T(void *p) { d_cipher<ascon::T>(p); }
O_CIPHER(aead128, 16) O_CIPHER(aead128a, 16) O_CIPHER(aead80pq, 20)
O_CIPHER(aead128_masked, 16) O_CIPHER(aead128a_masked, 16) O_CIPHER(aead80pq_masked, 20)
O_CIPHER(siv128, 16) O_CIPHER(siv128a, 16) O_CIPHER(siv80pq, 20)
O_CIPHER(isap128, 16) O_CIPHER(isap128a, 16) O_CIPHER(isap80pq, 20)

template <class H> static void o_cpphash(void *p, env_t *e)
{
    size_t l1 = 1 + len(e, 90);
    H *h = new (p) H();
    h->update(e->sec, l1);
    if (len(e, 1)) h->finalize(sink);
    LIVE(e, h);
    if (e->path) { H other; other.update(e->sec + 100, 7); *h = other; }   /* assignment frees the old state first */
    h->~H();
}
template <class X> static void o_cppxof(void *p, env_t *e)
{
    size_t l1 = 1 + len(e, 90), ol = len(e, 40);
    X *x = new (p) X();
    x->absorb(e->sec, l1);
    if (ol) x->squeeze(sink, ol);
    LIVE(e, x);
    x->~X();
}
static void o_cpp_hash(void *p, env_t *e) { o_cpphash<ascon::hash>(p, e); }
static void o_cpp_hasha(void *p, env_t *e) { o_cpphash<ascon::hasha>(p, e); }
static void o_cpp_xof(void *p, env_t *e) { o_cppxof<ascon::xof>(p, e); }
static void o_cpp_xof32(void *p, env_t *e) { o_cppxof<ascon::xof_with_output_length<32> >(p, e); }
static void o_cpp_xofa(void *p, env_t *e) { o_cppxof<ascon::xofa>(p, e); }
static void o_cpp_xofa64(void *p, env_t *e) { o_cppxof<ascon::xofa_with_output_length<64> >(p, e); }

typedef struct { const char *name; size_t size; void (*run)(void *, env_t *); void (*dtor_after_clear)(void *); int paths; } obj_t;
#define C_OBJ(NAME, T, FN, PATHS) {NAME, sizeof(T), FN, 0, PATHS}
#define CPP_OBJ(T) {"ascon::" #T, sizeof(ascon::T), o_cpp_##T, d_cpp_##T, 2}
static const obj_t OBJS[] = {
    C_OBJ("ascon_state_t", ascon_state_t, o_state, 1),
    C_OBJ("ascon128_state_t", ascon128_state_t, o_ascon128, 2), C_OBJ("ascon128a_state_t", ascon128a_state_t, o_ascon128a, 2), C_OBJ("ascon80pq_state_t", ascon80pq_state_t, o_ascon80pq, 2),
    C_OBJ("ascon_hash_state_t", ascon_hash_state_t, o_ascon_hash, 2), C_OBJ("ascon_hasha_state_t", ascon_hasha_state_t, o_ascon_hasha, 2),
    C_OBJ("ascon_xof_state_t", ascon_xof_state_t, o_ascon_xof, 1), C_OBJ("ascon_xofa_state_t", ascon_xofa_state_t, o_ascon_xofa, 1),
    C_OBJ("ascon_prf_state_t", ascon_prf_state_t, o_prf, 1),
    C_OBJ("ascon_hmac_state_t", ascon_hmac_state_t, o_ascon_hmac, 1), C_OBJ("ascon_hmaca_state_t", ascon_hmaca_state_t, o_ascon_hmaca, 1),
    C_OBJ("ascon_kmac_state_t", ascon_kmac_state_t, o_ascon_kmac, 1), C_OBJ("ascon_kmaca_state_t", ascon_kmaca_state_t, o_ascon_kmaca, 1),
    C_OBJ("ascon_kdf_state_t", ascon_kdf_state_t, o_ascon_kdf, 1), C_OBJ("ascon_kdfa_state_t", ascon_kdfa_state_t, o_ascon_kdfa, 1),
    C_OBJ("ascon_hkdf_state_t", ascon_hkdf_state_t, o_ascon_hkdf, 1), C_OBJ("ascon_hkdfa_state_t", ascon_hkdfa_state_t, o_ascon_hkdfa, 1),
    C_OBJ("ascon_random_state_t", ascon_random_state_t, o_random, 1),
    C_OBJ("ascon128_isap_aead_key_t", ascon128_isap_aead_key_t, o_ascon128_isapkey, 2), C_OBJ("ascon128a_isap_aead_key_t", ascon128a_isap_aead_key_t, o_ascon128a_isapkey, 2),
    C_OBJ("ascon80pq_isap_aead_key_t", ascon80pq_isap_aead_key_t, o_ascon80pq_isapkey, 2),
    C_OBJ("ascon_masked_key_128_t", ascon_masked_key_128_t, o_mkey128, 1), C_OBJ("ascon_masked_key_160_t", ascon_masked_key_160_t, o_mkey160, 1),
    C_OBJ("ascon_masked_state_t", ascon_masked_state_t, o_mstate, 1),
    CPP_OBJ(aead128), CPP_OBJ(aead128a), CPP_OBJ(aead80pq), CPP_OBJ(aead128_masked), CPP_OBJ(aead128a_masked), CPP_OBJ(aead80pq_masked),
    CPP_OBJ(siv128), CPP_OBJ(siv128a), CPP_OBJ(siv80pq), CPP_OBJ(isap128), CPP_OBJ(isap128a), CPP_OBJ(isap80pq),
    {"ascon::hash", sizeof(ascon::hash), o_cpp_hash, 0, 2}, {"ascon::hasha", sizeof(ascon::hasha), o_cpp_hasha, 0, 2},
    {"ascon::xof", sizeof(ascon::xof), o_cpp_xof, 0, 1}, {"ascon::xof<32>", sizeof(ascon::xof_with_output_length<32>), o_cpp_xof32, 0, 1},
    {"ascon::xofa", sizeof(ascon::xofa), o_cpp_xofa, 0, 1}, {"ascon::xofa<64>", sizeof(ascon::xofa_with_output_length<64>), o_cpp_xofa64, 0, 1},
};
#define NOBJ (sizeof(OBJS) / sizeof(OBJS[0]))

int main(int argc, char **argv)
{
    vf_args_t a;
    uint64_t n;
    static uint8_t secA[SECLEN], secB[SECLEN], liveA[1024], liveB[1024], afterA[1024], afterB[1024];
    vf_prop = "C13";
    vf_parse_args(argc, argv, &a);
    n = (uint64_t)(a.cases >= 0 ? a.cases : 8000);
    for (uint64_t idx = 0; idx < n; ++idx) {
        const obj_t *o = &OBJS[idx % NOBJ];
        rng_t r, shape;
        env_t e;
        uint8_t *storage;
        uint64_t tseed;
        int path, vac;
        if (!vf_mine(&a, idx)) continue;
        rng_seed(&r, a.seed ^ 0x3197e, idx);
        rng_bytes(&r, secA, SECLEN); rng_bytes(&r, secB, SECLEN);
        for (int i = 0; i < SECLEN; ++i) if (secA[i] == secB[i]) secB[i] ^= 0x5a;   /* every secret byte differs */
        shape = r; tseed = rng_u64(&r);
        path = o->paths > 1 ? (int)(rng_u64(&r) & 1) : 0;
        if (o->size > sizeof(liveA)) { fprintf(stderr, "HARNESS object too large\n"); return 2; }
        storage = (uint8_t *)galloc(o->size, (int)(idx & 1));
        vf_case_begin(idx);
        vf_progress("case=%llu wipe %s path=%d", (unsigned long long)idx, o->name, path);
        for (int run = 0; run < 2; ++run) {
            memset(storage, GPAT, o->size);
            tape_set(TAPE_RANDOM, tseed);
            e.sec = run ? secB : secA; e.shape = shape; e.live = run ? liveB : liveA; e.size = o->size; e.path = path;
            o->run(storage, &e);
            snap(run ? afterB : afterA, storage, o->size);
            if (path && o->dtor_after_clear) {
                o->dtor_after_clear(storage);   /* path 1 = clear(): compared above; the destructor result is compared too */
                uint8_t *second = run ? afterB : afterA;
                for (size_t i = 0; i < o->size; ++i) second[i] ^= (uint8_t)(storage[i] * 3);   /* fold both snapshots */
            }
        }
        vac = memcmp(liveA, liveB, o->size) == 0;
        if (vac) vf_count("vacuous_cases", 1);
        if (memcmp(afterA, afterB, o->size) != 0) {
            size_t first = 0, cnt = 0;
            char key[96];
            for (size_t i = 0; i < o->size; ++i) if (afterA[i] != afterB[i]) { if (!cnt) first = i; ++cnt; }
            snprintf(key, sizeof(key), "wipe:%s:%s", o->name, path ? (o->dtor_after_clear ? "clear" : "alt-release") : "release");
            vf_violation("C13", key, "\"object\":\"%s\",\"size\":%zu,\"first_differing_byte\":%zu,\"differing_bytes\":%zu,\"run_a\":\"%s\",\"run_b\":\"%s\"",
                         o->name, o->size, first, cnt, vf_h(afterA + first, o->size - first > 24 ? 24 : o->size - first), vf_h(afterB + first, o->size - first > 24 ? 24 : o->size - first));
        }
        vf_out(afterA, o->size);
        if (!vac) vf_distinct("wipe|%s|path%d", o->name, path);
        vf_count("objects_released", 2);
        if (idx % 613 == 7) vf_sample("\"object\":\"%s\",\"size\":%zu,\"path\":%d,\"bytes_after_release\":\"%s\"", o->name, o->size, path, vf_h(afterA, o->size > 32 ? 32 : o->size));
        vf_case_end();
        vf_count("cases", 1);
        gfree(storage);
    }
    gcheck_all("end");
    vf_finish();
    return 0;
}
