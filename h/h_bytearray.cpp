/* C20 (second half): the ASCON_NO_STL byte_array must have the value semantics of
 * std::vector<unsigned char>.  K objects are shadowed by K std::vectors; after EVERY
 * operation all K objects are compared with their shadows, so a mutation that leaks
 * through a shared (copy-on-write) buffer is seen on the other object.
 * Built with -DASCON_NO_STL; ascon-byte-array.cpp and ascon-aead-cpp.cpp are compiled
 * into the harness in that configuration. */
#ifndef ASCON_NO_STL
#error "compile with -DASCON_NO_STL"
#endif
#include "common.h"
#include "ascon_ref.h"
#include <ascon/utility.h>
#include <ascon/aead.h>
#include <vector>
#include <new>

#define K 4
typedef std::vector<unsigned char> vec;
static rng_t *R;
static char trace[4096];
static size_t tpos;

static void tr(const char *fmt, ...)
{
    va_list ap;
    if (tpos > sizeof(trace) - 120) return;
    va_start(ap, fmt);
    tpos += (size_t)vsnprintf(trace + tpos, sizeof(trace) - tpos, fmt, ap);
    va_end(ap);
}

static int check_all(ascon::byte_array *o[K], vec s[K], const char *op)
{
    for (int i = 0; i < K; ++i) {
        const ascon::byte_array &c = *o[i];
        const char *what = 0;
        if (c.size() != s[i].size()) what = "size";
        else if (c.empty() != s[i].empty()) what = "empty";
        else if (c.capacity() < c.size()) what = "capacity<size";
        else if (c.size() && memcmp(c.data(), s[i].data(), c.size()) != 0) what = "bytes";
        else if ((size_t)(c.end() - c.begin()) != c.size()) what = "iterators";
        if (what) {
            char key[96];
            snprintf(key, sizeof(key), "byte_array:%s:%s", op, what);
            vf_violation("C20", key, "\"object\":%d,\"size\":%zu,\"model_size\":%zu,\"trace\":\"%s\"", i, c.size(), s[i].size(), trace);
            return 1;
        }
    }
    return 0;
}

static int sgn(int x) { return (x > 0) - (x < 0); }

static void case_seq(uint64_t idx)
{
    ascon::byte_array *o[K];
    vec s[K];
    unsigned nops = 5 + rng_below(R, 56);
    tpos = 0; trace[0] = 0;
    vf_progress("case=%llu byte_array sequence ops=%u", (unsigned long long)idx, nops);
    for (int i = 0; i < K; ++i) {
        switch (rng_below(R, 3)) {
        case 0: o[i] = new ascon::byte_array(); tr("%d=new();", i); break;
        case 1: { size_t n = rng_below(R, 40); o[i] = new ascon::byte_array(n); s[i].assign(n, 0); tr("%d=new(%zu);", i, n); break; }
        default: { size_t n = rng_below(R, 40); unsigned v = rng_below(R, 256); o[i] = new ascon::byte_array(n, (unsigned char)v); s[i].assign(n, (unsigned char)v); tr("%d=new(%zu,%u);", i, n, v); break; }
        }
    }
    if (check_all(o, s, "construct")) goto done;
    for (unsigned step = 0; step < nops; ++step) {
        int a = (int)rng_below(R, K), b = (int)rng_below(R, K);
        const char *op = "?";
        switch (rng_below(R, 15)) {
        case 0: op = "assign"; *o[a] = *o[b]; s[a] = s[b]; tr("%d=%d;", a, b); break;
        case 1: { op = "copy-construct"; ascon::byte_array *n = new ascon::byte_array(*o[b]); delete o[a]; o[a] = n; if (a != b) s[a] = s[b]; tr("%d=copy(%d);", a, b); break; }
        case 2: if (s[a].size()) { size_t p = rng_below(R, (uint32_t)s[a].size()); unsigned v = rng_below(R, 256); op = "index-write"; (*o[a])[p] = (unsigned char)v; s[a][p] = (unsigned char)v; tr("%d[%zu]=%u;", a, p, v); } break;
        case 3: if (s[a].size()) { size_t p = rng_below(R, (uint32_t)s[a].size()); op = "index-read"; const ascon::byte_array &c = *o[a]; unsigned char v = rng_below(R, 2) ? c[p] : (*o[a])[p];
                    if (v != s[a][p]) vf_violation("C20", "byte_array:index-read:value", "\"object\":%d,\"pos\":%zu,\"trace\":\"%s\"", a, p, trace); tr("%d[%zu]?;", a, p); } break;
        case 4: if (s[a].size()) { size_t p = rng_below(R, (uint32_t)s[a].size()); unsigned v = rng_below(R, 256); op = "data-write"; o[a]->data()[p] = (unsigned char)v; s[a][p] = (unsigned char)v; tr("%d.data[%zu]=%u;", a, p, v); } break;
        case 5: { size_t n = rng_below(R, 4) == 0 ? s[a].size() : rng_below(R, 70); op = n > s[a].size() ? "resize-grow" : n < s[a].size() ? "resize-shrink" : "resize-same"; o[a]->resize(n); s[a].resize(n); tr("%d.resize(%zu);", a, n); break; }
        case 6: { size_t n = rng_below(R, 100); op = "reserve"; o[a]->reserve(n); s[a].reserve(n); if (o[a]->capacity() < n) vf_violation("C20", "byte_array:reserve:capacity", "\"n\":%zu,\"capacity\":%zu", n, o[a]->capacity()); tr("%d.reserve(%zu);", a, n); break; }
        case 7: case 8: { unsigned v = rng_below(R, 256); op = "push_back"; o[a]->push_back((unsigned char)v); s[a].push_back((unsigned char)v); tr("%d.push(%u);", a, v); break; }
        case 9: if (s[a].size()) { op = "pop_back"; o[a]->pop_back(); s[a].pop_back(); tr("%d.pop();", a); } break;
        case 10: op = "clear"; o[a]->clear(); s[a].clear(); tr("%d.clear();", a); break;
        case 11: { op = "iterate"; size_t k = 0; bool bad = false; for (ascon::byte_array::iterator it = o[a]->begin(); it != o[a]->end(); ++it, ++k) if (k >= s[a].size() || *it != s[a][k]) bad = true;
                   if (bad || k != s[a].size()) vf_violation("C20", "byte_array:iterate:values", "\"object\":%d,\"trace\":\"%s\"", a, trace);
                   if (s[a].size() && rng_below(R, 2)) { unsigned v = rng_below(R, 256); *(o[a]->begin()) = (unsigned char)v; s[a][0] = (unsigned char)v; tr("*%d.begin()=%u;", a, v); } break; }
        case 12: op = "self-assign"; *o[a] = *o[a]; tr("%d=%d;", a, a); break;
        default: {
            const ascon::byte_array &x = *o[a], &y = *o[b];
            int want = s[a] < s[b] ? -1 : s[b] < s[a] ? 1 : 0;
            int got_lt = x < y, got_le = x <= y, got_gt = x > y, got_ge = x >= y, got_eq = x == y, got_ne = x != y;
            op = "compare";
            if (got_lt != (want < 0) || got_le != (want <= 0) || got_gt != (want > 0) || got_ge != (want >= 0) || got_eq != (want == 0) || got_ne != (want != 0)) {
                char key[96];
                snprintf(key, sizeof(key), "byte_array:compare:%s-vs-%s", s[a].empty() ? (o[a]->capacity() ? "empty" : "null") : "nonempty", s[b].empty() ? (o[b]->capacity() ? "empty" : "null") : "nonempty");
                vf_violation("C20", key, "\"a\":%d,\"b\":%d,\"want_sign\":%d,\"lt\":%d,\"le\":%d,\"gt\":%d,\"ge\":%d,\"eq\":%d,\"ne\":%d,\"size_a\":%zu,\"size_b\":%zu,\"trace\":\"%s\"",
                             a, b, want, got_lt, got_le, got_gt, got_ge, got_eq, got_ne, s[a].size(), s[b].size(), trace);
            }
            vf_out_int(sgn(want));
            tr("cmp(%d,%d);", a, b);
            break; }
        }
        vf_distinct("op|%s", op);
        vf_count("byte_array_ops", 1);
        if (check_all(o, s, op)) break;
    }
    for (int i = 0; i < K; ++i) vf_out(s[i].data(), s[i].size());
done:
    if (idx % 997 == 3) vf_sample("\"kind\":\"byte_array sequence\",\"trace\":\"%s\"", trace);
    for (int i = 0; i < K; ++i) delete o[i];
}

/* the C++ AEAD byte_array overloads in the NO_STL configuration */
static void case_aead(uint64_t idx)
{
    size_t mlen = rng_below(R, 80), adlen = rng_below(R, 30);
    uint8_t key[16], exp[96 + 16];
    ascon::byte_array m(mlen), ad(adlen), c, m2;
    ascon::aead128 o;
    vf_progress("case=%llu byte_array aead mlen=%zu adlen=%zu", (unsigned long long)idx, mlen, adlen);
    rng_bytes(R, key, 16);
    for (size_t i = 0; i < mlen; ++i) m[i] = (unsigned char)rng_below(R, 256);
    for (size_t i = 0; i < adlen; ++i) ad[i] = (unsigned char)rng_below(R, 256);
    o.set_key(key, 16); o.set_counter(7);
    {
        uint8_t n[16] = {0}; n[15] = 7;
        ref_aead_encrypt(REF_128, exp, mlen ? m.data() : (const uint8_t *)"", mlen, adlen ? ad.data() : (const uint8_t *)"", adlen, n, key);
        ascon::byte_array mcopy(m), adcopy(ad);      /* shares the buffers: encrypt must not disturb them */
        o.encrypt(c, m, ad);
        if (c.size() != mlen + 16 || memcmp(c.data(), exp, mlen + 16)) vf_violation("C20", "byte_array:aead-encrypt", "\"mlen\":%zu,\"adlen\":%zu,\"size\":%zu", mlen, adlen, c.size());
        if (mcopy != m || adcopy != ad) vf_violation("C20", "byte_array:aead-encrypt-disturbed-input", "\"mlen\":%zu", mlen);
        o.set_counter(7);
        ascon::byte_array ccopy(c);
        if (!o.decrypt(m2, c, ad) || m2 != m) vf_violation("C20", "byte_array:aead-decrypt", "\"mlen\":%zu", mlen);
        if (ccopy != c) vf_violation("C20", "byte_array:aead-decrypt-disturbed-input", "\"mlen\":%zu", mlen);
        c[rng_below(R, (uint32_t)c.size())] ^= 1;
        if (ccopy == c) vf_violation("C20", "byte_array:index-write-did-not-detach", "\"mlen\":%zu", mlen);
        if (o.decrypt(m2, c, ad) || !m2.empty()) vf_violation("C20", "byte_array:aead-decrypt-forgery", "\"mlen\":%zu,\"size\":%zu", mlen, m2.size());
        vf_out(exp, mlen + 16);
    }
    vf_distinct("aead|m%s|ad%s", mlen ? "y" : "0", adlen ? "y" : "0");
}

int main(int argc, char **argv)
{
    vf_args_t a;
    rng_t r;
    uint64_t n;
    vf_prop = "C20";
    vf_parse_args(argc, argv, &a);
    n = (uint64_t)(a.cases >= 0 ? a.cases : 20000);
    R = &r;
    for (uint64_t idx = 0; idx < n; ++idx) {
        if (!vf_mine(&a, idx)) continue;
        rng_seed(&r, a.seed ^ 0xba, idx);
        vf_case_begin(idx);
        if (idx % 16 == 15) case_aead(idx); else case_seq(idx);
        vf_case_end();
        vf_count("cases", 1);
    }
    gcheck_all("end");
    vf_finish();
    return 0;
}
