/* Shared harness support: seeded PRNG, boundary-biased generators, guard-page
 * allocator with canaries, violation / distinct-class / sample reporting,
 * progress page for crash attribution, argument parsing.
 *
 * Output protocol (stdout, one record per line, tab separated):
 *   V <prop> <key> <json>     violation with a stable key
 *   D <token>                 a distinct non-trivial class that was exercised (printed once)
 *   X <json>                  a sample case (a few per run)
 *   S <name> <integer>        counter (summed over shards by the driver)
 *   M <name> <integer>        maximum (max over shards)
 */
#ifndef VERIF_COMMON_H
#define VERIF_COMMON_H

#ifndef _GNU_SOURCE
#define _GNU_SOURCE
#endif
#include <stddef.h>
#include <stdint.h>
#include <stdio.h>
#include <stdlib.h>
#include <string.h>
#include <stdarg.h>
#include <unistd.h>
#include <fcntl.h>
#include <sys/mman.h>

#ifdef __cplusplus
extern "C" {
#endif

/* ---------------------------------------------------------------- rng */
typedef struct { uint64_t s[4]; } rng_t;

static inline uint64_t vf_splitmix(uint64_t *x)
{
    uint64_t z = (*x += 0x9e3779b97f4a7c15ULL);
    z = (z ^ (z >> 30)) * 0xbf58476d1ce4e5b9ULL;
    z = (z ^ (z >> 27)) * 0x94d049bb133111ebULL;
    return z ^ (z >> 31);
}
static inline void rng_seed(rng_t *r, uint64_t seed, uint64_t stream)
{
    uint64_t x = seed * 0x9e3779b97f4a7c15ULL ^ (stream + 0x632be59bd9b4e019ULL) * 0xd1342543de82ef95ULL;
    for (int i = 0; i < 4; ++i) r->s[i] = vf_splitmix(&x);
}
static inline uint64_t rng_u64(rng_t *r)
{
    uint64_t *s = r->s, res, t;
    res = ((s[1] * 5) << 7 | (s[1] * 5) >> 57) * 9;
    t = s[1] << 17;
    s[2] ^= s[0]; s[3] ^= s[1]; s[1] ^= s[2]; s[0] ^= s[3]; s[2] ^= t;
    s[3] = (s[3] << 45) | (s[3] >> 19);
    return res;
}
static inline uint32_t rng_below(rng_t *r, uint32_t n) { return n ? (uint32_t)(rng_u64(r) % n) : 0; }
static inline void rng_bytes(rng_t *r, uint8_t *p, size_t n)
{
    while (n >= 8) { uint64_t v = rng_u64(r); memcpy(p, &v, 8); p += 8; n -= 8; }
    if (n) { uint64_t v = rng_u64(r); memcpy(p, &v, n); }
}

/* byte-string pattern classes */
enum { PAT_RANDOM = 0, PAT_ZERO, PAT_FF, PAT_COUNT, PAT_ONEBIT, PAT_HIGH, PAT_NCLASS };
static inline const char *pat_name(int c)
{
    static const char *n[] = {"rnd", "zero", "ff", "count", "onebit", "high"};
    return n[c];
}
static inline void fill_pattern(rng_t *r, uint8_t *p, size_t n, int cls)
{
    size_t i;
    switch (cls) {
    case PAT_ZERO: memset(p, 0, n); break;
    case PAT_FF: memset(p, 0xff, n); break;
    case PAT_COUNT: for (i = 0; i < n; ++i) p[i] = (uint8_t)i; break;
    case PAT_ONEBIT: memset(p, 0, n); if (n) p[rng_below(r, (uint32_t)n)] = (uint8_t)(1u << rng_below(r, 8)); break;
    case PAT_HIGH: rng_bytes(r, p, n); for (i = 0; i < n; ++i) p[i] |= 0x80; break;
    default: rng_bytes(r, p, n); break;
    }
}
/* mostly random, sometimes structured */
static inline int pick_pattern(rng_t *r)
{
    uint32_t v = rng_below(r, 16);
    return v < 10 ? PAT_RANDOM : (int)(1 + (v - 10) % (PAT_NCLASS - 1));
}

/* boundary-biased length for a block size `rate`, at most `max` */
static inline size_t pick_len(rng_t *r, unsigned rate, size_t max)
{
    static const size_t grid[] = {0, 1, 31, 32, 33, 63, 64, 65, 127, 128, 129, 255, 256, 257, 1023, 1024, 1025, 4096, 65536};
    size_t v;
    switch (rng_below(r, 8)) {
    case 0: v = rng_below(r, 4 * rate + 3); break;
    case 1: { size_t k = rng_below(r, 6); int d = (int)rng_below(r, 3) - 1; v = k * rate; if (d < 0 && v == 0) d = 0; v = (size_t)((long)v + d); break; }
    case 2: v = grid[rng_below(r, sizeof(grid) / sizeof(grid[0]))]; break;
    case 3: v = 3 * rate + 5; break;
    case 4: v = rng_below(r, 300); break;
    case 5: v = max ? rng_below(r, (uint32_t)(max > 0xfffffff ? 0xfffffff : max) + 1) : 0; break;
    default: v = rng_below(r, 2 * rate + 2); break;
    }
    return v > max ? max : v;
}
static inline const char *len_class(size_t len, unsigned rate, char buf[24])
{
    if (len == 0) return "0";
    if (len < rate) return "<r";
    if (len % rate == 0) { snprintf(buf, 24, len / rate <= 4 ? "%ur" : len >= 1024 ? "Kr" : "nr", (unsigned)(len / rate)); return buf; }
    if (len < 4 * rate) { snprintf(buf, 24, "%ur+", (unsigned)(len / rate)); return buf; }
    return len >= 1024 ? "K+" : "n+";
}

/* random composition of n into parts (including empty parts); returns count */
static inline size_t pick_chunks(rng_t *r, size_t n, unsigned rate, size_t *parts, size_t maxparts)
{
    size_t cnt = 0, left = n;
    int style = (int)rng_below(r, 6);
    while (cnt + 1 < maxparts) {
        size_t p;
        if (left == 0 && rng_below(r, 3)) break;
        switch (style) {
        case 0: p = left; break;                       /* all at once */
        case 1: p = left ? 1 : 0; break;               /* one byte at a time */
        case 2: p = rng_below(r, rate + 2); break;     /* <= rate+1 */
        case 3: p = rng_below(r, 4) == 0 ? 0 : rng_below(r, 3 * rate + 2); break;
        case 4: p = rate * (1 + rng_below(r, 3)); break;
        default: p = rng_below(r, (uint32_t)(left > 0xffffff ? 0xffffff : left) + 2); break;
        }
        if (style == 1 && cnt > 64) p = left;
        if (p > left) p = left;
        parts[cnt++] = p;
        left -= p;
        if (left == 0 && (style == 0 || rng_below(r, 2))) break;
    }
    if (left) parts[cnt++] = left;
    return cnt;
}

/* ---------------------------------------------------------------- reporting */
extern const char *vf_prop;       /* default property id of this harness */
extern uint64_t vf_seed;
extern uint64_t vf_case;          /* current case index */
extern long vf_violations;
extern const char *vf_build;      /* build name passed by the driver */

void vf_hex(char *dst, const uint8_t *p, size_t n, size_t maxbytes);
/* V record; json_fmt is a printf format producing the inside of a JSON object (no braces) */
void vf_violation(const char *prop, const char *key, const char *json_fmt, ...) __attribute__((format(printf, 3, 4)));
void vf_distinct(const char *fmt, ...) __attribute__((format(printf, 1, 2)));
void vf_sample(const char *json_fmt, ...) __attribute__((format(printf, 1, 2)));
void vf_count(const char *name, long add);
void vf_max(const char *name, long v);
void vf_flush_counters(void);
void vf_progress(const char *fmt, ...) __attribute__((format(printf, 1, 2)));
/* a static buffer of hex (rotating, 8 slots) for use in printf arguments */
const char *vf_h(const uint8_t *p, size_t n);

/* compare with witness: returns 1 if equal */
int vf_eq(const char *prop, const char *key, const char *what, const uint8_t *got, const uint8_t *exp, size_t n,
          const char *ctx_fmt, ...) __attribute__((format(printf, 7, 8)));

/* ---------------------------------------------------------------- guard allocator */
/* object of exactly n bytes between PROT_NONE pages.  end=1: last byte touches the
 * trailing guard; end=0: first byte touches the leading guard.  The slack on the
 * other side is filled with canary bytes that gfree()/gcheck() verify. */
void *galloc(size_t n, int end);
void gfree(void *p);
int gcheck_all(const char *where);   /* verify canaries of all live objects; returns #bad */
void gfree_all(void);
#define GPAT 0xA5                     /* initial content of galloc'ed objects */

/* ---------------------------------------------------------------- args */
typedef struct {
    uint64_t seed;
    unsigned shard, nshards;
    long cases;           /* requested number of random cases (harness specific meaning) */
    long only;            /* -1 or the single case index to run */
    int thorough;
    const char *mode;     /* "check" (default), "transcript", ... */
    const char *progress; /* path of progress file or NULL */
    const char *arg;      /* free-form harness-specific argument */
} vf_args_t;
void vf_parse_args(int argc, char **argv, vf_args_t *a);
/* true if case idx belongs to this shard / --only selection */
static inline int vf_mine(const vf_args_t *a, uint64_t idx)
{
    if (a->only >= 0) return (uint64_t)a->only == idx;
    { uint64_t x = idx; return vf_splitmix(&x) % a->nshards == a->shard; } /* hashed: no aliasing with idx % k case selectors */
}
void vf_finish(void);   /* flush counters; always call before exit */

/* ---------------------------------------------------------------- transcript (C09) */
/* every library output is folded into a per-case digest; in --mode transcript one
 * line "t <case> <digest>" is printed per case so that builds can be compared. */
extern int vf_transcript_on;
void vf_case_begin(uint64_t idx);
void vf_out(const void *p, size_t n);       /* fold library output bytes */
void vf_out_int(long v);
void vf_case_end(void);

#ifdef __cplusplus
}
#endif
#endif
