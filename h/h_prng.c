/* C15: PRNG.  The system source (getrandom) is replaced at link time by a scripted
 * tape with scripted failures; storage callbacks are scripted too.
 * Four monitors (exactly the four clauses of the property):
 *  1 determinism      same history + same tape twice -> identical transcript and final state
 *  2 influence        one changed byte of any delivered entropy block / fed buffer changes every later fetch (>= 8 bytes)
 *  3 forward security after every init/fetch/feed/reseed/save/load the canonical state, pushed through the reference
 *                     INVERSE 12-round permutation, has a zero rate (bytes 0..7)
 *  4 reseed + status  >= 16384 bytes since the last source draw -> the source is called during the next non-empty fetch before
 *                     any byte of it is produced; init/reseed/ascon_random status == health of ALL source calls the
 *                     operation made (at least one); save/load status as documented in random.h
 * The monitors do not assume how many source calls an operation makes, how many bytes each asks for, or that a reseed
 * cannot happen early or in the middle of a fetch (none of that is in the property): the source interposer records
 * where in the current fetch buffer each call happened.
 */
#include "common.h"
#include "ascon_ref.h"
#include <ascon/random.h>
#include "random/ascon-trng.h"
#include <errno.h>
#include <stddef.h>
#include <sys/types.h>
#include <sys/wait.h>
#include <unistd.h>

/* ---------------------------------------------------------------- scripted system source */
static uint64_t gr_seed;
static long gr_logical;        /* logical calls completed (success or permanent failure) */
static long gr_attempts;       /* including EINTR/EAGAIN attempts */
static unsigned gr_fail_mask;  /* bit i: logical call i fails with ENOSYS (i < 32) */
static unsigned gr_eintr_mask; /* bit i: logical call i is first interrupted (EINTR, then EAGAIN) */
static int gr_pending_intr;
static long pert_call = -1; static size_t pert_byte;   /* perturb byte (pert_byte % n) of logical call pert_call */
static long gr_bytes_delivered;
/* position of source calls inside the fetch that is in progress (NULL: no fetch in progress) */
static const uint8_t *cur_out; static size_t cur_size;
static int cur_calls; static int cur_first_call_after_output; static size_t cur_last_call_pos_hi;
#define GPAT_AT(i) ((uint8_t)(GPAT ^ (uint8_t)((i) * 29u)))
static void note_call_position(void)
{
    size_t last = 0;   /* index of the last byte that no longer holds the prefill pattern, plus one */
    if (!cur_out) return;
    for (size_t i = cur_size; i > 0; --i) if (cur_out[i - 1] != GPAT_AT(i - 1)) { last = i; break; }
    if (cur_calls++ == 0) cur_first_call_after_output = last != 0;
    /* upper bound on the bytes produced so far: a few produced bytes may coincide with the pattern */
    cur_last_call_pos_hi = last == 0 ? 0 : (last + 4 > cur_size ? cur_size : last + 4);
}

ssize_t getrandom(void *buf, size_t n, unsigned flags)
{
    uint8_t *p = (uint8_t *)buf;
    long i = gr_logical;
    (void)flags;
    ++gr_attempts;
    if (i < 32 && (gr_eintr_mask >> i & 1) && gr_pending_intr < 2) {
        errno = gr_pending_intr++ ? EAGAIN : EINTR;
        return -1;
    }
    gr_pending_intr = 0;
    ++gr_logical;
    note_call_position();
    if (i < 32 && (gr_fail_mask >> i & 1)) { errno = ENOSYS; return -1; }
    for (size_t j = 0; j < n; ++j) {
        uint64_t x = gr_seed ^ ((uint64_t)i << 32) ^ (j * 0x9e3779b97f4a7c15ULL);
        p[j] = (uint8_t)(vf_splitmix(&x) >> 17);
        if (i == pert_call && j == pert_byte % n) p[j] ^= 0x40;
    }
    gr_bytes_delivered += (long)n;
    return (ssize_t)n;
}
static int call_ok(long i) { return !(i < 32 && (gr_fail_mask >> i & 1)); }
static int calls_ok(long from, long to) { for (long i = from; i < to; ++i) if (!call_ok(i)) return 0; return 1; }

/* ---------------------------------------------------------------- scripted storage */
static uint8_t st_mem[64];
static int st_read_mode, st_write_mode;   /* 0 ok, 1 returns -1, 2 short count */
static long st_reads, st_writes;
static int st_read(const ascon_storage_t *s, size_t off, unsigned char *data, size_t size)
{
    (void)s; ++st_reads;
    if (st_read_mode == 1) return -1;
    if (off + size > sizeof(st_mem)) return -1;
    if (st_read_mode == 2) { memcpy(data, st_mem + off, size / 2); return (int)(size / 2); }
    memcpy(data, st_mem + off, size);
    return (int)size;
}
static int st_write(const ascon_storage_t *s, size_t off, const unsigned char *data, size_t size, int erase)
{
    (void)s; (void)erase; ++st_writes;
    if (st_write_mode == 1) return -1;
    if (off + size > sizeof(st_mem)) return -1;
    if (st_write_mode == 2) { memcpy(st_mem + off, data, size / 2); return (int)(size / 2); }
    memcpy(st_mem + off, data, size);
    return (int)size;
}

/* ---------------------------------------------------------------- histories */
enum { OP_FETCH, OP_FEED, OP_RESEED, OP_SAVE, OP_LOAD, OP_NOPS };
static const char *opname[] = {"fetch", "feed", "reseed", "save_seed", "load_seed"};
typedef struct { int op; size_t size; int rmode, wmode; } op_t;
#define MAXOPS 40
#define MAXOUT (MAXOPS * 40)
typedef struct {
    uint8_t out[MAXOUT]; size_t outlen;   /* first <= 32 bytes of every fetch + an 8-byte digest of the whole fetch */
    size_t out_at[MAXOPS + 1];            /* offset of op i's contribution */
    int status[MAXOPS + 1];               /* init + ops */
    long calls_before[MAXOPS + 1], calls_after[MAXOPS + 1];
    uint8_t final_state[40];
    uint8_t saved[MAXOPS][32]; int nsaved;
} tr_t;

static const size_t SIZES[] = {0, 1, 7, 8, 9, 31, 32, 100, 16383, 16384, 20000};
static uint8_t bigbuf[20000 + 64];
static uint8_t feedbuf[20000];
static long pert_feed_op = -1; static size_t pert_feed_byte;
static char hist_desc[600];

static void canonical(ascon_random_state_t *st, uint8_t s[40])
{
    ascon_acquire(&st->xof.state);
    ascon_extract_bytes(&st->xof.state, s, 0, 40);
    ascon_release(&st->xof.state);
}

static void check_fs(ascon_random_state_t *st, const char *after, int report)
{
    uint8_t s[40];
    canonical(st, s);
    ref_permute_inv(s, 12);
    vf_count("forward_security_observations", 1);
    if (!report) return;
    for (int i = 0; i < 8; ++i)
        if (s[i]) {
            char key[64];
            snprintf(key, sizeof(key), "prng:forward-security:after-%s", after);
            vf_violation("C15", key, "\"preimage_rate\":\"%s\",\"history\":\"%s\"", vf_h(s, 8), hist_desc);
            return;
        }
}

/* run a history; report = emit violations of the single-run clauses (3, 4) */
static void run_history(const op_t *ops, int nops, uint64_t tape, unsigned fail_mask, unsigned eintr_mask, tr_t *t, int report)
{
    ascon_random_state_t *st = (ascon_random_state_t *)galloc(sizeof(*st), 1);
    ascon_storage_t sto;
    long since = 0;     /* bytes handed out by fetch since the last source call (lower bound when a call happened mid-fetch) */
    memset(t, 0, sizeof(*t));
    memset(&sto, 0, sizeof(sto));
    sto.page_size = 32; sto.erase_size = 32; sto.size = 64; sto.read = st_read; sto.write = st_write;
    gr_seed = tape; gr_logical = 0; gr_attempts = 0; gr_fail_mask = fail_mask; gr_eintr_mask = eintr_mask; gr_pending_intr = 0;
    memset(st_mem, 0x5c, sizeof(st_mem));
    t->calls_before[0] = gr_logical;
    t->status[0] = ascon_random_init(st);
    t->calls_after[0] = gr_logical;
    if (report) {
        if (gr_logical < 1) vf_violation("C15", "prng:init:source-calls", "\"calls\":%ld", gr_logical);
        else if ((t->status[0] != 0) != calls_ok(0, gr_logical)) vf_violation("C15", "prng:status:init", "\"status\":%d,\"source_ok\":%d,\"history\":\"%s\"", t->status[0], calls_ok(0, gr_logical), hist_desc);
        vf_max("source_calls_per_init", gr_logical);
    }
    check_fs(st, "init", report);
    for (int i = 0; i < nops; ++i) {
        const op_t *o = &ops[i];
        long c0 = gr_logical;
        int status = 0;
        t->calls_before[i + 1] = c0;
        t->out_at[i] = t->outlen;
        st_read_mode = o->rmode; st_write_mode = o->wmode;
        switch (o->op) {
        case OP_FETCH: {
            uint8_t *out = bigbuf;
            uint64_t d = 1469598103934665603ULL;
            int expect_reseed = since >= 16384 && o->size > 0;
            for (size_t z = 0; z < o->size; ++z) out[z] = GPAT_AT(z);
            memset(out + o->size, GPAT, 8);
            cur_out = out; cur_size = o->size; cur_calls = 0; cur_first_call_after_output = 0; cur_last_call_pos_hi = 0;
            ascon_random_fetch(st, out, o->size);
            cur_out = 0;
            if (report && expect_reseed) {
                vf_count("forced_reseeds_expected", 1);
                if (gr_logical == c0) vf_violation("C15", "prng:reseed:not-drawn-after-limit", "\"produced\":%ld,\"history\":\"%s\"", since, hist_desc);
                else if (cur_first_call_after_output) vf_violation("C15", "prng:reseed:output-before-draw-after-limit", "\"produced\":%ld,\"history\":\"%s\"", since, hist_desc);
            }
            if (report && gr_logical != c0) { vf_count(expect_reseed ? "reseeds_in_fetch_at_limit" : "reseeds_in_fetch_early", 1); if (cur_last_call_pos_hi) vf_count("reseeds_mid_fetch", 1); }
            if (gr_logical != c0) since = (long)(o->size - cur_last_call_pos_hi); else since += (long)o->size;
            if (report) for (int z = 0; z < 8; ++z) if (out[o->size + z] != GPAT) { vf_violation("C12", "stray-write:prng-fetch", "\"size\":%zu", o->size); break; }
            for (size_t j = 0; j < o->size; ++j) { d ^= out[j]; d *= 1099511628211ULL; }
            memcpy(t->out + t->outlen, out, o->size < 32 ? o->size : 32); t->outlen += o->size < 32 ? o->size : 32;
            memcpy(t->out + t->outlen, &d, 8); t->outlen += 8;
            break; }
        case OP_FEED: {
            for (size_t j = 0; j < o->size; ++j) { uint64_t x = tape ^ 0xfeed ^ ((uint64_t)i << 40) ^ j; feedbuf[j] = (uint8_t)(vf_splitmix(&x) >> 9); }
            if (i == pert_feed_op && pert_feed_byte < o->size) feedbuf[pert_feed_byte] ^= 0x01;
            ascon_random_feed(st, feedbuf, o->size);
            if (gr_logical != c0) since = 0;
            break; }
        case OP_RESEED:
            status = ascon_random_reseed(st);
            if (gr_logical != c0) since = 0;
            if (report) {
                if (gr_logical < c0 + 1) vf_violation("C15", "prng:reseed:source-calls", "\"calls\":%ld", gr_logical - c0);
                else if ((status != 0) != calls_ok(c0, gr_logical)) vf_violation("C15", "prng:status:reseed", "\"status\":%d,\"source_ok\":%d,\"history\":\"%s\"", status, calls_ok(c0, gr_logical), hist_desc);
                vf_max("source_calls_per_reseed", gr_logical - c0);
            }
            break;
        case OP_SAVE: {
            long w0 = st_writes;
            status = ascon_random_save_seed(st, &sto);
            if (report && since >= 16384) {
                /* the saved seed is 32 bytes of generator output: once the limit is reached it may not be produced without a fresh draw */
                vf_count("forced_reseeds_expected", 1);
                if (gr_logical == c0) vf_violation("C15", "prng:reseed:not-drawn-after-limit", "\"produced\":%ld,\"operation\":\"save_seed\",\"history\":\"%s\"", since, hist_desc);
            }
            if (report) {
                int want = o->wmode == 0 ? 0 : -1;
                if (status != want) vf_violation("C15", "prng:status:save_seed", "\"status\":%d,\"documented\":%d,\"write_mode\":%d,\"history\":\"%s\"", status, want, o->wmode, hist_desc);
                vf_max("storage_writes_per_save_seed", st_writes - w0);
            }
            if (gr_logical != c0) since = 0;     /* the 32 seed bytes are not counted: the property speaks of output produced, and counting less is the safe side */
            if (t->nsaved < MAXOPS) memcpy(t->saved[t->nsaved++], st_mem, 32);
            memcpy(t->out + t->outlen, st_mem, 32); t->outlen += 32;
            break; }
        case OP_LOAD: {
            long w0 = st_writes, r0 = st_reads;
            uint8_t before[32];
            memcpy(before, st_mem, 32);
            status = ascon_random_load_seed(st, &sto);
            if (report) {
                int want = o->rmode == 0 ? 0 : -1;
                if (status != want) vf_violation("C15", "prng:status:load_seed", "\"status\":%d,\"documented\":%d,\"read_mode\":%d,\"history\":\"%s\"", status, want, o->rmode, hist_desc);
                /* random.h notes that a loaded seed is replaced in storage and fresh entropy is mixed in; the property does not
                   constrain either, so they are observations, not verdicts */
                vf_max("storage_reads_per_load_seed", st_reads - r0);
                if (st_writes != w0 && o->wmode == 0 && memcmp(before, st_mem, 32) != 0) vf_count("load_seed_replaced_stored_seed", 1);
                if (gr_logical != c0) vf_count("load_seed_drew_from_source", 1);
            }
            if (gr_logical != c0) since = 0;
            memcpy(t->out + t->outlen, st_mem, 32); t->outlen += 32;
            break; }
        }
        t->status[i + 1] = status;
        t->calls_after[i + 1] = gr_logical;
        check_fs(st, opname[o->op], report);
    }
    t->out_at[nops] = t->outlen;
    canonical(st, t->final_state);
    ascon_random_free(st);
    gfree(st);
}

static rng_t *R;

static int gen_history(op_t *ops)
{
    int n = 1 + (int)rng_below(R, MAXOPS), big = 0;
    size_t pos = 0;
    hist_desc[0] = 0;
    for (int i = 0; i < n; ++i) {
        op_t *o = &ops[i];
        uint32_t v = rng_below(R, 16);
        memset(o, 0, sizeof(*o));
        if (v < 8) { o->op = OP_FETCH; o->size = SIZES[rng_below(R, 11)]; if (o->size >= 16383 && ++big > 4) o->size = 100; }
        else if (v < 11) { o->op = OP_FEED; o->size = SIZES[rng_below(R, 9)]; }
        else if (v < 13) o->op = OP_RESEED;
        else if (v < 14) { o->op = OP_SAVE; o->wmode = (int)rng_below(R, 3); }
        else { o->op = OP_LOAD; o->rmode = (int)rng_below(R, 3); o->wmode = rng_below(R, 4) ? 0 : 1 + (int)rng_below(R, 2); }
        if (pos < sizeof(hist_desc) - 40) pos += (size_t)snprintf(hist_desc + pos, sizeof(hist_desc) - pos, "%s(%zu%s%s) ", opname[o->op], o->size,
                                                               o->rmode ? ",rfail" : "", o->wmode ? ",wfail" : "");
    }
    return n;
}

static int tr_equal(const tr_t *a, const tr_t *b)
{
    return a->outlen == b->outlen && !memcmp(a->out, b->out, a->outlen) && !memcmp(a->final_state, b->final_state, 40) && !memcmp(a->status, b->status, sizeof(a->status));
}

static tr_t T0, T1;

static void case_history(uint64_t idx)
{
    op_t ops[MAXOPS];
    int n = gen_history(ops), ncalls;
    uint64_t tape = rng_u64(R);
    unsigned fail = rng_below(R, 3) == 0 ? (unsigned)rng_u64(R) & (unsigned)rng_u64(R) : 0, eintr = rng_below(R, 3) == 0 ? (unsigned)rng_u64(R) : 0;
    vf_progress("case=%llu prng history ops=%d", (unsigned long long)idx, n);
    pert_call = -1; pert_feed_op = -1;
    run_history(ops, n, tape, fail, eintr, &T0, 1);
    ncalls = (int)T0.calls_after[n];
    vf_out(T0.out, T0.outlen); vf_out(T0.final_state, 40);
    /* 1 determinism */
    run_history(ops, n, tape, fail, eintr, &T1, 0);
    if (!tr_equal(&T0, &T1)) vf_violation("C15", "prng:determinism", "\"history\":\"%s\"", hist_desc);
    /* EINTR/EAGAIN must be retried and must not change anything */
    if (eintr) {
        run_history(ops, n, tape, fail, 0, &T1, 0);
        if (!tr_equal(&T0, &T1)) vf_violation("C15", "prng:eintr-changes-result", "\"history\":\"%s\",\"eintr_mask\":%u", hist_desc, eintr);
        vf_count("eintr_histories", 1);
    }
    /* 2 influence: perturb one byte of a successfully delivered entropy block */
    for (int rep = 0; rep < 3 && ncalls > 0; ++rep) {
        long c = (long)rng_below(R, (uint32_t)ncalls);
        int first_after = -1;
        if (!call_ok(c)) continue;
        {   /* an operation may make several source calls; when one of them fails the operation may legitimately discard
               what the others delivered, so only perturb calls of operations whose calls all succeeded */
            int whole = 1;
            for (int i = -1; i < n; ++i)
                if (T0.calls_before[i + 1] <= c && c < T0.calls_after[i + 1]) whole = calls_ok(T0.calls_before[i + 1], T0.calls_after[i + 1]);
            if (!whole) { vf_count("influence_skipped_partial_failure", 1); continue; }
        }
        pert_call = c; pert_byte = rng_below(R, 32);
        run_history(ops, n, tape, fail, eintr, &T1, 0);
        pert_call = -1;
        /* ops that completed before source call c: identical; fetches that start after it was delivered: all different */
        for (int i = 0; i < n; ++i) {
            size_t a = T0.out_at[i], b = T0.out_at[i + 1];
            if (T0.calls_after[i + 1] <= c) { if (memcmp(T0.out + a, T1.out + a, b - a)) vf_violation("C15", "prng:influence:earlier-output-changed", "\"history\":\"%s\"", hist_desc); }
            else if (ops[i].op == OP_FETCH && ops[i].size >= 8 && T0.calls_before[i + 1] > c) {
                if (first_after < 0) first_after = i;
                if (!memcmp(T0.out + a, T1.out + a, b - a))
                    vf_violation("C15", "prng:influence:entropy-byte-ignored", "\"source_call\":%ld,\"byte\":%zu,\"op_index\":%d,\"first_fetch_after\":%d,\"history\":\"%s\"", c, pert_byte, i, first_after, hist_desc);
                vf_count("influence_checks", 1);
            }
        }
        if (!memcmp(T0.final_state, T1.final_state, 40)) vf_violation("C15", "prng:influence:state-unchanged", "\"source_call\":%ld,\"history\":\"%s\"", c, hist_desc);
    }
    /* 2 influence: perturb one byte of a fed buffer */
    for (int i = 0; i < n; ++i) {
        if (ops[i].op != OP_FEED || ops[i].size == 0 || rng_below(R, 2)) continue;
        pert_feed_op = i; pert_feed_byte = rng_below(R, (uint32_t)ops[i].size);
        run_history(ops, n, tape, fail, eintr, &T1, 0);
        pert_feed_op = -1;
        for (int k = i + 1; k < n; ++k) {
            size_t a = T0.out_at[k], b = T0.out_at[k + 1];
            if (ops[k].op == OP_FETCH && ops[k].size >= 8) {
                if (!memcmp(T0.out + a, T1.out + a, b - a))
                    vf_violation("C15", "prng:influence:fed-byte-ignored", "\"feed_op\":%d,\"feed_size\":%zu,\"byte\":%zu,\"op_index\":%d,\"history\":\"%s\"", i, ops[i].size, pert_feed_byte, k, hist_desc);
                vf_count("influence_checks", 1);
            }
        }
        if (!memcmp(T0.final_state, T1.final_state, 40)) vf_violation("C15", "prng:influence:state-unchanged-by-feed", "\"feed_size\":%zu,\"history\":\"%s\"", ops[i].size, hist_desc);
    }
    /* 4 all 2^k subsets of failing source calls for short histories */
    if (ncalls <= 8 && rng_below(R, 4) == 0) {
        for (unsigned m = 0; m < (1u << ncalls); ++m) {
            run_history(ops, n, tape, m, 0, &T1, 1);
            vf_count("fault_subsets", 1);
        }
        vf_distinct("faults|all-subsets|calls%d", ncalls);
    }
    vf_distinct("history|ops%s|calls%s|fail%s|eintr%s", n <= 5 ? "<=5" : n <= 20 ? "<=20" : ">20", ncalls <= 2 ? "<=2" : ncalls <= 8 ? "<=8" : ">8", fail ? "y" : "n", eintr ? "y" : "n");
    for (int i = 0; i < n; ++i) vf_distinct("op|%s|size%zu|r%d|w%d", opname[ops[i].op], ops[i].size, ops[i].rmode, ops[i].wmode);
    if (idx % 397 == 2) vf_sample("\"history\":\"%s\",\"source_calls\":%d,\"fail_mask\":%u,\"eintr_mask\":%u", hist_desc, ncalls, fail, eintr);
}

/* one-shot ascon_random, bad parameters of save/load, fetch with a NULL state */
/* ascon_random() has no state object: whatever it keeps between calls (nothing in the pinned tree; a pool would be allowed -
 * "a deterministic function of the bytes obtained from the system source") lives in the process.  So each variant runs in a
 * forked child: all children start from the same inherited process state and differ only in the tape / fault script. */
typedef struct { int status; long calls; uint8_t out[20000 + 8]; } rnd_res_t;
static int random_in_child(size_t n, uint64_t tape, unsigned fail_mask, unsigned eintr_mask, long pcall, size_t pbyte, rnd_res_t *res)
{
    int fd[2];
    pid_t pid;
    size_t got = 0, want = offsetof(rnd_res_t, out) + n + 8;
    uint8_t *raw = (uint8_t *)res;
    if (pipe(fd)) return -1;
    fflush(stdout);
    pid = fork();
    if (pid < 0) return -1;
    if (pid == 0) {
        static rnd_res_t r;
        close(fd[0]);
        gr_seed = tape; gr_logical = 0; gr_fail_mask = fail_mask; gr_eintr_mask = eintr_mask; gr_pending_intr = 0; pert_call = pcall; pert_byte = pbyte;
        memset(r.out, GPAT, n + 8);
        r.status = ascon_random(r.out, n);
        r.calls = gr_logical;
        { const uint8_t *p = (const uint8_t *)&r; size_t left = want; while (left) { ssize_t w = write(fd[1], p, left); if (w <= 0) _exit(3); p += w; left -= (size_t)w; } }
        _exit(0);
    }
    close(fd[1]);
    while (got < want) { ssize_t k = read(fd[0], raw + got, want - got); if (k <= 0) break; got += (size_t)k; }
    close(fd[0]);
    { int st; waitpid(pid, &st, 0); if (!WIFEXITED(st) || WEXITSTATUS(st)) return -1; }
    return got == want ? 0 : -1;
}

static void case_misc(uint64_t idx)
{
    size_t n = SIZES[rng_below(R, 9)];
    static rnd_res_t a, b, c, f;
    uint64_t tape = rng_u64(R);
    unsigned eintr = rng_below(R, 2);
    size_t pb = rng_below(R, 32);
    vf_progress("case=%llu prng misc n=%zu", (unsigned long long)idx, n);
    snprintf(hist_desc, sizeof(hist_desc), "ascon_random(%zu)", n);
    if (random_in_child(n, tape, 0, eintr, -1, 0, &a) || random_in_child(n, tape, 0, 0, -1, 0, &b) || random_in_child(n, tape, 0, 0, 0, pb, &c) || random_in_child(n, tape, 1, 0, -1, 0, &f)) {
        vf_violation("C15", "prng:ascon_random:child-died", "\"n\":%zu", n);
    } else {
        if (!a.status || a.calls < 1) vf_violation("C15", "prng:status:ascon_random", "\"status\":%d,\"calls\":%ld", a.status, a.calls);
        if (n && memcmp(a.out, b.out, n)) vf_violation("C15", "prng:determinism:ascon_random", "\"n\":%zu", n);
        for (int z = 0; z < 8; ++z) if (a.out[n + z] != GPAT) { vf_violation("C12", "stray-write:ascon_random", "\"n\":%zu", n); break; }
        vf_out(a.out, n);
        if (n >= 8 && !memcmp(a.out, c.out, n)) vf_violation("C15", "prng:influence:ascon_random", "\"n\":%zu,\"byte\":%zu", n, pb);
        if (f.status != 0) vf_violation("C15", "prng:status:ascon_random-failed-source", "\"status\":%d", f.status);
        if (n >= 8) { size_t k = 0; while (k < n && f.out[k] == GPAT) ++k; if (k == n) vf_count("ascon_random_no_output_on_failed_source", 1); }
        vf_count("ascon_random_child_runs", 4);
    }
    gr_seed = tape; gr_logical = 0; gr_fail_mask = 0; gr_eintr_mask = 0; gr_pending_intr = 0; pert_call = -1;
    /* bad parameters */
    {
        ascon_random_state_t st;
        ascon_storage_t sto;
        memset(&sto, 0, sizeof(sto)); sto.size = 31; sto.read = st_read; sto.write = st_write;
        gr_logical = 0;
        ascon_random_init(&st);
        if (ascon_random_save_seed(&st, &sto) != -1 || ascon_random_load_seed(&st, &sto) != -1) vf_violation("C15", "prng:status:small-storage", "\"size\":31");
        if (ascon_random_save_seed(&st, 0) != -1 || ascon_random_load_seed(&st, 0) != -1) vf_violation("C15", "prng:status:null-storage", "\"x\":0");
        if (ascon_random_save_seed(0, &sto) != -1 || ascon_random_load_seed(0, &sto) != -1) vf_violation("C15", "prng:status:null-state", "\"x\":0");
        if (ascon_random_init(0) != 0 || ascon_random_reseed(0) != 0) vf_violation("C15", "prng:status:null-state-init", "\"x\":0");
        ascon_random_free(&st);
        ascon_random_free(0);
    }
    /* the internal TRNG toolkit (real mixer) on an exactly-sized object: memory safety + determinism under the tape */
    {
        ascon_trng_state_t *t1 = (ascon_trng_state_t *)galloc(sizeof(*t1), 1), *t2 = (ascon_trng_state_t *)galloc(sizeof(*t2), 0);
        uint8_t *sb = (uint8_t *)galloc(n, 1);
        int ok1, ok2;
        gr_logical = 0; gr_fail_mask = 0; gr_eintr_mask = 0;
        ok1 = ascon_trng_init(t1);
        gr_logical = 0;
        ok2 = ascon_trng_init(t2);
        if (!ok1 || !ok2) vf_violation("C15", "trng:init-status", "\"ok\":%d", ok1);
        for (int k = 0; k < 40; ++k) {
            int w = (int)rng_below(R, 3);
            /* the mixer is the source of masking randomness, not the generator C15 speaks of: whether two instances seeded alike
               agree is recorded only (an implementation may mix in a per-instance counter); the calls are made for memory safety */
            if (w == 0) { if (ascon_trng_generate_32(t1) != ascon_trng_generate_32(t2)) vf_count("trng_instances_seeded_alike_differ", 1); }
            else if (w == 1) { if (ascon_trng_generate_64(t1) != ascon_trng_generate_64(t2)) vf_count("trng_instances_seeded_alike_differ", 1); }
            else { long c = gr_logical; ascon_trng_reseed(t1); gr_logical = c; ascon_trng_reseed(t2); }
            vf_count("trng_toolkit_calls", 2);
        }
        gr_logical = 0;
        ascon_trng_generate(sb, n);
        ascon_trng_free(t1); ascon_trng_free(t2);
        gfree(t1); gfree(t2); gfree(sb);
    }
    vf_distinct("misc|n%zu", n);

}

int main(int argc, char **argv)
{
    vf_args_t a;
    rng_t r;
    uint64_t n;
    vf_prop = "C15";
    vf_parse_args(argc, argv, &a);
    n = (uint64_t)(a.cases >= 0 ? a.cases : 3000);
    R = &r;
    for (uint64_t idx = 0; idx < n; ++idx) {
        if (!vf_mine(&a, idx)) continue;
        rng_seed(&r, a.seed ^ 0x9c15, idx);
        vf_case_begin(idx);
        if (idx % 10 == 9) case_misc(idx); else case_history(idx);
        vf_case_end();
        vf_count("cases", 1);
    }
    gcheck_all("end");
    vf_finish();
    return 0;
}
