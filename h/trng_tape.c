/* Link-time replacement for the library's random source
 * (ascon-trng-mixer.o + ascon-trng-dev-random.o are never pulled from the
 * static archive because all their symbols are defined here).  Delivers a
 * chosen "tape" of 64/32-bit values and system-seed bytes and counts draws. */
#include "trng_tape.h"
#include "random/ascon-trng.h"
#include <string.h>

int tape_mode = TAPE_RANDOM;
uint64_t tape_state = 0x1234567;
uint64_t tape_repeat = 0x0123456789abcdefULL;
long tape_draws64 = 0, tape_draws32 = 0, tape_generate_calls = 0, tape_inits = 0, tape_frees = 0, tape_reseeds = 0;
int tape_fail_generate = 0;   /* make ascon_trng_generate report failure */

static uint64_t next64(void)
{
    uint64_t z;
    switch (tape_mode) {
    case TAPE_ZERO: return 0;
    case TAPE_ONES: return ~(uint64_t)0;
    case TAPE_REPEAT: return tape_repeat;
    case TAPE_COUNTER: return ++tape_state;
    case TAPE_ALTERNATE: return (++tape_state & 1) ? 0 : ~(uint64_t)0;
    case TAPE_DISTINCT: /* pairwise distinct, never zero: odd multiples walk */
        tape_state += 0x9e3779b97f4a7c15ULL;
        z = tape_state | 1;
        return z;
    default:
        z = (tape_state += 0x9e3779b97f4a7c15ULL);
        z = (z ^ (z >> 30)) * 0xbf58476d1ce4e5b9ULL;
        z = (z ^ (z >> 27)) * 0x94d049bb133111ebULL;
        return z ^ (z >> 31);
    }
}

void tape_set(int mode, uint64_t seed)
{
    tape_mode = mode;
    tape_state = seed * 0x2545F4914F6CDD1DULL + 12345;
    tape_repeat = seed * 0x9e3779b97f4a7c15ULL + 0x55;
}

const char *tape_name(int mode)
{
    static const char *n[] = {"random", "zero", "ones", "repeat", "counter", "alternate", "distinct"};
    return n[mode];
}

int ascon_trng_generate(unsigned char *out, size_t outlen)
{
    ++tape_generate_calls;
    while (outlen >= 8) { uint64_t v = next64(); memcpy(out, &v, 8); out += 8; outlen -= 8; }
    if (outlen) { uint64_t v = next64(); memcpy(out, &v, outlen); }
    return tape_fail_generate ? 0 : 1;
}

int ascon_trng_init(ascon_trng_state_t *state)
{
    ++tape_inits;
    memset(state, 0, sizeof(*state));
    return 1;
}

void ascon_trng_free(ascon_trng_state_t *state)
{
    ++tape_frees;
    memset(state, 0, sizeof(*state));
}

uint32_t ascon_trng_generate_32(ascon_trng_state_t *state)
{
    (void)state;
    ++tape_draws32;
    return (uint32_t)next64();
}

uint64_t ascon_trng_generate_64(ascon_trng_state_t *state)
{
    (void)state;
    ++tape_draws64;
    return next64();
}

int ascon_trng_reseed(ascon_trng_state_t *state)
{
    (void)state;
    ++tape_reseeds;
    return 1;
}
