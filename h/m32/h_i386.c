/* C18 monitor 3: the i386 assembly backend, built 32-bit freestanding and static
 * (ascon-asm-i386.S + ascon-sliced32.c + ascon-clean.c), run natively on this kernel.
 * For every case prints one line:  R <first_round> <state-in hex> <state-out hex> <abi flags>
 * The driver recomputes the permutation with its own model.  abi flags: bit0 ebx, bit1 esi,
 * bit2 edi, bit3 ebp changed; bit4 esp changed; bit5 direction flag set; bit6 caller-frame
 * canary damaged; bit7 guard bytes around the state changed. */
#include <stdint.h>
#include <stddef.h>
#include <ascon/permutation.h>

void *memcpy(void *d, const void *s, size_t n) { unsigned char *a = d; const unsigned char *b = s; while (n--) *a++ = *b++; return d; }
void *memset(void *d, int c, size_t n) { unsigned char *a = d; while (n--) *a++ = (unsigned char)c; return d; }
void *memmove(void *d, const void *s, size_t n) { unsigned char *a = d; const unsigned char *b = s; if (a < b) while (n--) *a++ = *b++; else while (n--) a[n] = b[n]; return d; }

static long sys3(long nr, long a, long b, long c)
{
    long r;
    __asm__ volatile("int $0x80" : "=a"(r) : "a"(nr), "b"(a), "c"(b), "d"(c) : "memory");
    return r;
}
static char obuf[4096]; static unsigned opos;
static void flush(void) { if (opos) sys3(4, 1, (long)obuf, opos); opos = 0; }
static void putc_(char c) { if (opos == sizeof(obuf)) flush(); obuf[opos++] = c; }
static void puthex(const uint8_t *p, unsigned n) { static const char d[] = "0123456789abcdef"; while (n--) { putc_(d[*p >> 4]); putc_(d[*p & 15]); ++p; } }
static void putnum(unsigned v) { char t[12]; int i = 0; do { t[i++] = (char)('0' + v % 10); v /= 10; } while (v); while (i) putc_(t[--i]); }

static uint64_t rs = 88172645463325252ULL;
static uint32_t rnd(void) { rs ^= rs << 13; rs ^= rs >> 7; rs ^= rs << 17; return (uint32_t)(rs >> 16); }

struct snap { uint32_t sent[4], after[4], esp_before, esp_after, eflags, canary_bad; };

/* separate pure-assembly trampoline (tramp_i386.S): sentinels in ebx, esi, edi, ebp; 64 canary bytes above the arguments */
void vf_tramp32(void *fn, void *state, unsigned first_round, struct snap *s);

static struct { uint8_t pre[32]; ascon_state_t st; uint8_t post[32]; } box;

static void one(const uint8_t in[40], unsigned fr)
{
    struct snap s;
    uint8_t out[40];
    unsigned flags = 0;
    for (int i = 0; i < 4; ++i) s.sent[i] = rnd() | 1;
    memset(box.pre, 0x5a, 32); memset(box.post, 0x5a, 32);
    ascon_init(&box.st);
    ascon_overwrite_bytes(&box.st, in, 0, 40);
    vf_tramp32((void *)ascon_permute, &box.st, fr, &s);
    ascon_extract_bytes(&box.st, out, 0, 40);
    ascon_free(&box.st);
    for (int i = 0; i < 4; ++i) if (s.after[i] != s.sent[i]) flags |= 1u << i;
    if (s.esp_after != s.esp_before) flags |= 16;
    if (s.eflags & 0x400) flags |= 32;
    if (s.canary_bad) flags |= 64;
    for (int i = 0; i < 32; ++i) if (box.pre[i] != 0x5a || box.post[i] != 0x5a) flags |= 128;
    putc_('R'); putc_(' '); putnum(fr); putc_(' '); puthex(in, 40); putc_(' '); puthex(out, 40); putc_(' '); putnum(flags); putc_('\n');
}

void _start(void)
{
    /* arguments: none.  count and seed are patched through the two words below by the driver via -D */
    uint8_t st[40];
#ifndef NRANDOM
#define NRANDOM 300
#endif
#ifndef SEED
#define SEED 1
#endif
    rs ^= (uint64_t)SEED * 0x9e3779b97f4a7c15ULL;
    for (unsigned fr = 0; fr < 12; ++fr) {
        memset(st, 0, 40); one(st, fr);
        memset(st, 0xff, 40); one(st, fr);
        for (int i = 0; i < 40; ++i) st[i] = (uint8_t)i;
        one(st, fr);
        for (unsigned bit = 0; bit < 320; bit += 7) { memset(st, 0, 40); st[bit / 8] = (uint8_t)(0x80 >> (bit % 8)); one(st, fr); }
        for (unsigned k = 0; k < NRANDOM; ++k) { for (int i = 0; i < 40; ++i) st[i] = (uint8_t)rnd(); one(st, fr); }
    }
    flush();
    sys3(1, 0, 0, 0);
    for (;;) ;
}
