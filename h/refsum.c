/* reference digests of a file for the asconsum checks: refsum hash|hasha|xof|xofa <file> */
#include "ascon_ref.h"
#include <stdio.h>
#include <stdlib.h>
#include <string.h>
int main(int argc, char **argv)
{
    FILE *f;
    unsigned char *buf = 0, out[32];
    size_t n = 0, cap = 0;
    if (argc < 3 || !(f = fopen(argv[2], "rb"))) return 2;
    for (;;) {
        size_t got;
        if (n + 65536 > cap) { cap = cap ? cap * 2 : 1 << 17; buf = (unsigned char *)realloc(buf, cap); }
        got = fread(buf + n, 1, 65536, f);
        n += got;
        if (got < 65536) break;
    }
    if (!strcmp(argv[1], "hash")) ref_hash(0, out, buf, n);
    else if (!strcmp(argv[1], "hasha")) ref_hash(1, out, buf, n);
    else if (!strcmp(argv[1], "xof")) ref_xof(0, out, 32, buf, n);
    else ref_xof(1, out, 32, buf, n);
    for (int i = 0; i < 32; ++i) printf("%02x", out[i]);
    printf("\n");
    return 0;
}
