/* C16: re-entrancy.  T threads, released together by a barrier, each run a seeded mix of
 * public operations on their OWN state objects while all of them also use SHARED CONST
 * objects (pre-computed ISAP keys, masked keys, input buffers, key/nonce bytes).
 * Oracles: (a) the race detector the binary runs under (TSan build, or helgrind/DRD on the
 * -O3 build so that assembly accesses are seen); (b) every per-thread result must equal
 * the result of the same operation list executed sequentially AFTER the threads have been joined (so the first use of
 * anything the library initialises lazily happens inside the threads: "cold start").
 * --arg cold:<kind>: 8 threads whose first three operations all have that kind - one process per kind, so that every
 * entry point is hit by several threads at once as the very first thing the process does with it.
 * --arg canary: two threads race on an unsynchronised counter; the detector must report it.
 */
#include "common.h"
#include <pthread.h>
#include <sched.h>
#include <ascon/aead.h>
#include <ascon/aead-masked.h>
#include <ascon/siv.h>
#include <ascon/isap.h>
#include <ascon/hash.h>
#include <ascon/xof.h>
#include <ascon/prf.h>
#include <ascon/hmac.h>
#include <ascon/kmac.h>
#include <ascon/kdf.h>
#include <ascon/hkdf.h>
#include <ascon/pbkdf2.h>
#include <ascon/random.h>
#include <ascon/utility.h>

#include <errno.h>
#include <sys/syscall.h>
#include <unistd.h>

/* --arg nosrc: the system random source fails for the whole process (getrandom -> ENOSYS).  The PRNG's behaviour with a dead
 * source is deterministic, so its per-thread output is compared with the sequential run as well, and whatever the library
 * does to cope with the failure is exercised by 8 threads at once. */
static int fail_source = 0;
ssize_t getrandom(void *buf, size_t n, unsigned flags)
{
    if (fail_source) { errno = ENOSYS; return -1; }
    return syscall(SYS_getrandom, buf, n, flags);
}
int getentropy(void *buf, size_t n) { return getrandom(buf, n, 0) == (ssize_t)n ? 0 : -1; }

#define MAXT 16
#define NOPS 40
#define NKINDS 24
#define OUTSZ 96

/* shared, read-only after set-up */
static ascon128_isap_aead_key_t sh_isap128;
static ascon128a_isap_aead_key_t sh_isap128a;
static ascon80pq_isap_aead_key_t sh_isap80pq;
static ascon_masked_key_128_t sh_mk128;
static ascon_masked_key_160_t sh_mk160;
static uint8_t sh_key[20], sh_nonce[16], sh_in[512], sh_longkey[160];

typedef struct { uint8_t kind; uint16_t mlen, adlen; uint8_t off; } op_t;
static op_t plan[MAXT][NOPS];
static uint8_t expect[MAXT][NOPS][OUTSZ], got[MAXT][NOPS][OUTSZ];
static int nthreads = 8;
static pthread_barrier_t bar;
static int inlib = 0, max_overlap = 0;

static uint64_t yield_seed;

static void do_op(const op_t *o, uint8_t out[OUTSZ], int tid)
{
    uint8_t buf[600 + 16];
    size_t clen = 0, mlen = o->mlen, adlen = o->adlen;
    const uint8_t *m = sh_in + o->off, *ad = sh_in + 200 + o->off;
    memset(out, 0, OUTSZ);
    switch (o->kind) {
    case 0: ascon128_aead_encrypt(buf, &clen, m, mlen, ad, adlen, sh_nonce, sh_key); break;
    case 1: ascon128a_aead_encrypt(buf, &clen, m, mlen, ad, adlen, sh_nonce, sh_key); break;
    case 2: ascon80pq_siv_encrypt(buf, &clen, m, mlen, ad, adlen, sh_nonce, sh_key); break;
    case 3: ascon128_isap_aead_encrypt(buf, &clen, m, mlen, ad, adlen, sh_nonce, &sh_isap128); break;
    case 4: ascon128a_isap_aead_encrypt(buf, &clen, m, mlen, ad, adlen, sh_nonce, &sh_isap128a); break;
    case 5: ascon80pq_isap_aead_encrypt(buf, &clen, m, mlen, ad, adlen, sh_nonce, &sh_isap80pq); break;
    case 6: ascon128_masked_aead_encrypt(buf, &clen, m, mlen, ad, adlen, sh_nonce, &sh_mk128); break;
    case 7: ascon80pq_masked_aead_encrypt(buf, &clen, m, mlen, ad, adlen, sh_nonce, &sh_mk160); break;
    case 8: { ascon_hash_state_t h; ascon_hash_init(&h); ascon_hash_update(&h, m, mlen); ascon_hash_update(&h, ad, adlen); ascon_hash_finalize(&h, buf); ascon_hash_free(&h); clen = 32; break; }
    case 9: { ascon_xofa_state_t x; ascon_xofa_init_custom(&x, "mt", ad, adlen, 0); ascon_xofa_absorb(&x, m, mlen); ascon_xofa_squeeze(&x, buf, 40); ascon_xofa_free(&x); clen = 40; break; }
    case 10: ascon_hmac(buf, sh_key, 20, m, mlen); ascon_kmac(sh_key, 16, m, mlen, ad, adlen, buf + 32, 32); clen = 64; break;
    case 11: ascon_hkdf(buf, 50, sh_key, 20, ad, adlen, m, mlen > 30 ? 30 : mlen); ascon_pbkdf2(buf + 50, 20, m, mlen, ad, adlen, 2); clen = 70; break;
    case 12: ascon_prf(buf, 40, m, mlen, sh_key); ascon_mac(buf + 40, m, mlen, sh_key); { int r = ascon_mac_verify(buf + 40, m, mlen, sh_key); buf[56] = (uint8_t)r; } clen = 57; break;
    case 13: { /* incremental AEAD session: two packets */
        ascon128a_state_t st; ascon128a_aead_init(&st, sh_nonce, sh_key);
        ascon128a_aead_start(&st, ad, adlen); ascon128a_aead_encrypt_block(&st, m, buf, mlen); ascon128a_aead_encrypt_finalize(&st, buf + mlen);
        ascon128a_aead_start(&st, 0, 0); ascon128a_aead_encrypt_block(&st, m, buf + 16, mlen / 2); ascon128a_aead_encrypt_finalize(&st, buf + 16 + mlen / 2);
        ascon128a_aead_free(&st); clen = mlen + 16; break; }
#define MDEC(P, KEY) { uint8_t c[600 + 16], p[600]; size_t l = 0, l2 = 0; int r1, r2; \
        P##_masked_aead_encrypt(c, &l, m, mlen, ad, adlen, sh_nonce, KEY); \
        r1 = P##_masked_aead_decrypt(p, &l2, c, l, ad, adlen, sh_nonce, KEY); \
        memcpy(buf, c, l); buf[0] ^= (uint8_t)r1; \
        c[l - 1 - (o->off % 16)] ^= 0x04;                    /* forged packet through the same shared key */ \
        r2 = P##_masked_aead_decrypt(p, &l2, c, l, ad, adlen, sh_nonce, KEY); \
        buf[1] ^= (uint8_t)(r2 < 0 ? 0x55 : 0xAA); clen = l; break; }
    case 14: MDEC(ascon128, &sh_mk128)
    case 15: MDEC(ascon128a, &sh_mk128)
    case 16: MDEC(ascon80pq, &sh_mk160)
#define IDEC(P, KEY) { uint8_t c[600 + 16], p[600]; size_t l = 0, l2 = 0; int r1, r2; \
        P##_isap_aead_encrypt(c, &l, m, mlen, ad, adlen, sh_nonce, KEY); \
        r1 = P##_isap_aead_decrypt(p, &l2, c, l, ad, adlen, sh_nonce, KEY); \
        memcpy(buf, c, l); buf[0] ^= (uint8_t)r1; \
        c[o->off % l] ^= 0x40; \
        r2 = P##_isap_aead_decrypt(p, &l2, c, l, ad, adlen, sh_nonce, KEY); \
        buf[1] ^= (uint8_t)(r2 < 0 ? 0x55 : 0xAA); clen = l; break; }
    case 17: IDEC(ascon128, &sh_isap128)
    case 18: IDEC(ascon128a, &sh_isap128a)
    case 19: IDEC(ascon80pq, &sh_isap80pq)
    case 21: { /* fixed-length / customised XOF, KMAC and PRF with per-operation output lengths (initial blocks computed on the fly) */
        ascon_xof_state_t x; ascon_xofa_state_t xa; size_t ol = 1 + (mlen % 63), ol2 = 1 + (adlen % 47);
        memset(buf, 0, 330);
        ascon_xof_init_fixed(&x, ol); ascon_xof_absorb(&x, m, mlen); ascon_xof_squeeze(&x, buf, ol); ascon_xof_free(&x);
        ascon_xofa_init_fixed(&xa, ol2); ascon_xofa_absorb(&xa, ad, adlen); ascon_xofa_squeeze(&xa, buf + 64, ol2); ascon_xofa_free(&xa);
        ascon_kmac(sh_key, 16, m, mlen, ad, adlen, buf + 128, ol2); ascon_prf_fixed(buf + 192, ol, m, mlen, sh_key);
        ascon_kdf(buf + 256, ol, sh_key, 20, ad, adlen);
        clen = 256 + ol; break; }
    case 22: { /* keys / salts / passwords longer than the 64-byte HMAC block (hashed down first) */
        size_t kl = 65 + (mlen % 90);
        memset(buf, 0, 200);
        ascon_hmac(buf, sh_longkey, kl, m, mlen); ascon_hmaca(buf + 32, sh_longkey, kl + 1, ad, adlen);
        ascon_hkdf(buf + 64, 40, sh_key, 20, sh_longkey, kl, ad, adlen); ascon_hkdfa(buf + 104, 33, sh_longkey, kl, sh_longkey + 3, 70, 0, 0);
        ascon_pbkdf2_hmac(buf + 140, 20, sh_longkey, kl, ad, adlen, 2);
        {   ascon_hmac_state_t hs; ascon_hmac_init(&hs, sh_longkey, kl); ascon_hmac_update(&hs, m, mlen); ascon_hmac_finalize(&hs, sh_longkey, kl, buf + 160); ascon_hmac_free(&hs); }
        clen = 192; break; }
    case 20: { /* key extraction from the shared masked keys must keep returning the key */
        ascon_masked_key_128_extract(&sh_mk128, buf); ascon_masked_key_160_extract(&sh_mk160, buf + 16); clen = 36; break; }
    default: { /* the global PRNG and a per-thread PRNG object: output is random, only the call is exercised */
        ascon_random_state_t rs; uint8_t rnd[48];
        memset(rnd, 0, sizeof(rnd));
        ascon_random(rnd, 1 + (mlen % 48)); ascon_random_init(&rs); ascon_random_fetch(&rs, rnd, 32); ascon_random_feed(&rs, m, mlen);
        if (fail_source) { ascon_random_reseed(&rs); ascon_random_fetch(&rs, rnd + 32, 16); }
        ascon_random_free(&rs);
        { char hx[33]; ascon_bytes_to_hex(hx, sizeof(hx), sh_key, 16, tid & 1); memcpy(buf, hx, 32); }
        clen = 32;
        if (fail_source) { memcpy(buf + 32, rnd, 48); clen = 80; }   /* dead source: the PRNG is deterministic, so its output is compared too */
        break; }
    }
    /* digest of the output */
    for (size_t i = 0; i < clen; ++i) out[i % OUTSZ] = (uint8_t)(out[i % OUTSZ] * 31 + buf[i] + (uint8_t)i);
}

static void *worker(void *arg)
{
    int tid = (int)(intptr_t)arg;
    uint64_t ys = yield_seed + (uint64_t)tid * 7919;
    uint8_t out[OUTSZ];
    pthread_barrier_wait(&bar);
    for (int i = 0; i < NOPS; ++i) {
        int now = __atomic_add_fetch(&inlib, 1, __ATOMIC_RELAXED), mx = __atomic_load_n(&max_overlap, __ATOMIC_RELAXED);
        while (now > mx && !__atomic_compare_exchange_n(&max_overlap, &mx, now, 0, __ATOMIC_RELAXED, __ATOMIC_RELAXED)) ;
        do_op(&plan[tid][i], out, tid);
        __atomic_sub_fetch(&inlib, 1, __ATOMIC_RELAXED);
        memcpy(got[tid][i], out, OUTSZ);
        if ((vf_splitmix(&ys) & 3) == 0) sched_yield();
    }
    return 0;
}

/* detector canary */
static volatile long racy_counter = 0;
static void *racer(void *arg) { (void)arg; for (int i = 0; i < 20000; ++i) racy_counter = racy_counter + 1; return 0; }

int main(int argc, char **argv)
{
    vf_args_t a;
    rng_t r;
    long rounds;
    int coldkind = -1;
    vf_prop = "C16";
    vf_parse_args(argc, argv, &a);
    if (a.arg && !strcmp(a.arg, "canary")) {
        pthread_t t1, t2;
        pthread_create(&t1, 0, racer, 0); pthread_create(&t2, 0, racer, 0);
        pthread_join(t1, 0); pthread_join(t2, 0);
        printf("S\tcanary_ran\t1\n");
        vf_finish();
        return 0;
    }
    if (a.arg && !strcmp(a.arg, "nosrc")) { fail_source = 1; nthreads = 8; }
    else if (a.arg && !strncmp(a.arg, "cold:", 5)) { coldkind = atoi(a.arg + 5) % NKINDS; nthreads = 8; }
    else if (a.arg && atoi(a.arg) >= 2 && atoi(a.arg) <= MAXT) nthreads = atoi(a.arg);
    rounds = a.cases > 0 ? a.cases : 200;
    rng_seed(&r, a.seed ^ 0x16, a.shard);
    for (long round = 0; round < rounds; ++round) {
        pthread_t th[MAXT];
        uint64_t idx = (uint64_t)round * a.nshards + a.shard;
        int T = (round % 4 == 3) ? 2 + (int)rng_below(&r, (uint32_t)nthreads - 1) : nthreads;
        vf_case_begin(idx);
        vf_progress("case=%llu mt round threads=%d", (unsigned long long)idx, T);
        /* shared objects for this round */
        rng_bytes(&r, sh_key, 20); rng_bytes(&r, sh_nonce, 16); rng_bytes(&r, sh_in, sizeof(sh_in)); rng_bytes(&r, sh_longkey, sizeof(sh_longkey));
        ascon128_isap_aead_init(&sh_isap128, sh_key); ascon128a_isap_aead_init(&sh_isap128a, sh_key); ascon80pq_isap_aead_init(&sh_isap80pq, sh_key);
        ascon_masked_key_128_init(&sh_mk128, sh_key); ascon_masked_key_160_init(&sh_mk160, sh_key);
        for (int t = 0; t < T; ++t)
            for (int i = 0; i < NOPS; ++i) {
                op_t *o = &plan[t][i];
                o->kind = (uint8_t)rng_below(&r, NKINDS); o->mlen = (uint16_t)pick_len(&r, 8, 180); o->adlen = (uint16_t)pick_len(&r, 8, 60); o->off = (uint8_t)rng_below(&r, 20);
                if (coldkind >= 0 && round == 0 && i < 3) o->kind = (uint8_t)coldkind;
                if (fail_source && (i & 1)) o->kind = NKINDS - 1;       /* half of the operations use the PRNG */
                if (((o->kind >= 3 && o->kind <= 5) || (o->kind >= 17 && o->kind <= 19)) && o->mlen > 64) o->mlen = 64;
            }
        yield_seed = rng_u64(&r);
        pthread_barrier_init(&bar, 0, (unsigned)T);
        for (int t = 0; t < T; ++t) pthread_create(&th[t], 0, worker, (void *)(intptr_t)t);
        for (int t = 0; t < T; ++t) pthread_join(th[t], 0);
        pthread_barrier_destroy(&bar);
        for (int t = 0; t < T; ++t)
            for (int i = 0; i < NOPS; ++i) {
                do_op(&plan[t][i], expect[t][i], t);       /* sequential result, after the concurrent phase */
                if (memcmp(got[t][i], expect[t][i], OUTSZ) != 0 && (plan[t][i].kind != NKINDS - 1 || fail_source)) {
                    char key[64];
                    snprintf(key, sizeof(key), "mt:result-differs-from-sequential:kind%d", plan[t][i].kind);
                    vf_violation("C16", key, "\"threads\":%d,\"thread\":%d,\"op\":%d,\"mlen\":%u,\"adlen\":%u,\"cold_kind\":%d", T, t, i, plan[t][i].mlen, plan[t][i].adlen, coldkind);
                }
            }
        ascon128_isap_aead_free(&sh_isap128); ascon128a_isap_aead_free(&sh_isap128a); ascon80pq_isap_aead_free(&sh_isap80pq);
        ascon_masked_key_128_free(&sh_mk128); ascon_masked_key_160_free(&sh_mk160);
        vf_count("cases", 1); vf_count("thread_operations", (long)T * NOPS);
        vf_distinct("mt|threads%d|round%ld", T, round % 50);
        if (fail_source) vf_distinct("mt|dead-source|threads%d", T);
        if (coldkind >= 0 && round == 0) { vf_distinct("mt|cold-start|kind%d", coldkind); vf_count("cold_start_processes", 1); }
        vf_case_end();
    }
    vf_max("max_threads_inside_library_at_once", max_overlap);
    vf_sample("\"threads\":%d,\"ops_per_thread\":%d,\"shared\":\"3 pre-computed ISAP keys, 2 masked keys, key/nonce/input buffers\",\"max_overlap\":%d", nthreads, NOPS, max_overlap);
    vf_finish();
    return 0;
}
