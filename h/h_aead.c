/* AEAD families against the reference model and under mutation.
 *   --arg enc   C01 (one-shot, incremental, masked) + C06 (SIV, ISAP incl. key persistence)
 *   --arg dec   C02: round trip, every single-bit flip, truncation / extension, short inputs, wipe
 *   --arg sess  C14 (C part): multi-packet incremental sessions, nonce helpers
 * The C++ entry points are exercised by h_cpp.cpp.
 */
#include "common.h"
#include "ascon_ref.h"
#include "trng_tape.h"
#include <ascon/aead.h>
#include <ascon/aead-masked.h>
#include <ascon/siv.h>
#include <ascon/isap.h>

typedef void (*enc_fn)(unsigned char *, size_t *, const unsigned char *, size_t, const unsigned char *, size_t,
                       const unsigned char *, const unsigned char *);
typedef int (*dec_fn)(unsigned char *, size_t *, const unsigned char *, size_t, const unsigned char *, size_t,
                      const unsigned char *, const unsigned char *);

enum { K_ONESHOT, K_INC, K_MASKED, K_SIV, K_ISAP };
typedef struct fam {
    const char *name, *prop;
    int kind, v;            /* v: reference variant */
    unsigned klen, rate;
    enc_fn enc; dec_fn dec; /* for one-shot style kinds */
} fam_t;

static rng_t *cur_rng;      /* chunking decisions of the incremental wrappers */

/* ------------------------------------------------------------ incremental wrappers */
#define INC_WRAP(P, ST)                                                                               \
static void inc_enc_##P(unsigned char *c, size_t *clen, const unsigned char *m, size_t mlen,         \
                        const unsigned char *ad, size_t adlen, const unsigned char *n, const unsigned char *k) \
{                                                                                                     \
    ST *st = (ST *)galloc(sizeof(ST), 1);                                                             \
    size_t parts[200], np = pick_chunks(cur_rng, mlen, 8, parts, 200), off = 0; \
    int inplace = (int)rng_below(cur_rng, 3) == 0;                                                    \
    P##_aead_init(st, n, k);                                                                          \
    P##_aead_start(st, ad, adlen);                                                                    \
    if (inplace && mlen) memcpy(c, m, mlen);                                                          \
    for (size_t i = 0; i < np; ++i) {                                                                 \
        P##_aead_encrypt_block(st, inplace ? c + off : (m ? m + off : 0), c + off, parts[i]);                   \
        off += parts[i];                                                                              \
    }                                                                                                 \
    P##_aead_encrypt_finalize(st, c + mlen);                                                          \
    P##_aead_free(st);                                                                                \
    *clen = mlen + 16;                                                                                \
    vf_count(inplace ? "inc_inplace" : "inc_outofplace", 1);                                          \
    vf_max("inc_max_chunks", (long)np);                                                               \
    gfree(st);                                                                                        \
}                                                                                                     \
static int inc_dec_##P(unsigned char *m, size_t *mlen, const unsigned char *c, size_t clen,          \
                       const unsigned char *ad, size_t adlen, const unsigned char *n, const unsigned char *k) \
{                                                                                                     \
    ST *st;                                                                                           \
    size_t parts[200], np, off = 0, len;                                                              \
    int inplace, res;                                                                                 \
    if (clen < 16) return -2; /* the incremental API has no length check of its own */                \
    len = clen - 16;                                                                                  \
    st = (ST *)galloc(sizeof(ST), 0);                                                                 \
    np = pick_chunks(cur_rng, len, 8, parts, 200);                                                    \
    inplace = (int)rng_below(cur_rng, 3) == 0;                                                        \
    P##_aead_init(st, n, k);                                                                          \
    P##_aead_start(st, ad, adlen);                                                                    \
    if (inplace && len) memcpy(m, c, len);                                                            \
    for (size_t i = 0; i < np; ++i) {                                                                 \
        P##_aead_decrypt_block(st, inplace ? m + off : c + off, m + off, parts[i]);                   \
        off += parts[i];                                                                              \
    }                                                                                                 \
    res = P##_aead_decrypt_finalize(st, c + len);                                                     \
    P##_aead_free(st);                                                                                \
    *mlen = len;                                                                                      \
    gfree(st);                                                                                        \
    return res;                                                                                       \
}
INC_WRAP(ascon128, ascon128_state_t)
INC_WRAP(ascon128a, ascon128a_state_t)
INC_WRAP(ascon80pq, ascon80pq_state_t)

/* ------------------------------------------------------------ masked wrappers */
#define MASK_WRAP(P, KT, KP)                                                                          \
static void mask_enc_##P(unsigned char *c, size_t *clen, const unsigned char *m, size_t mlen,        \
                         const unsigned char *ad, size_t adlen, const unsigned char *n, const unsigned char *k) \
{                                                                                                     \
    KT *mk = (KT *)galloc(sizeof(KT), 1);                                                             \
    KP##_init(mk, k);                                                                                 \
    if (rng_below(cur_rng, 4) == 0) KP##_randomize(mk);                                               \
    P##_masked_aead_encrypt(c, clen, m, mlen, ad, adlen, n, mk);                                      \
    KP##_free(mk);                                                                                    \
    gfree(mk);                                                                                        \
}                                                                                                     \
static int mask_dec_##P(unsigned char *m, size_t *mlen, const unsigned char *c, size_t clen,         \
                        const unsigned char *ad, size_t adlen, const unsigned char *n, const unsigned char *k) \
{                                                                                                     \
    KT *mk = (KT *)galloc(sizeof(KT), 0);                                                             \
    int res;                                                                                          \
    KP##_init(mk, k);                                                                                 \
    res = P##_masked_aead_decrypt(m, mlen, c, clen, ad, adlen, n, mk);                                \
    KP##_free(mk);                                                                                    \
    gfree(mk);                                                                                        \
    return res;                                                                                       \
}
MASK_WRAP(ascon128, ascon_masked_key_128_t, ascon_masked_key_128)
MASK_WRAP(ascon128a, ascon_masked_key_128_t, ascon_masked_key_128)
MASK_WRAP(ascon80pq, ascon_masked_key_160_t, ascon_masked_key_160)

/* ------------------------------------------------------------ ISAP wrappers (C06 persistence) */
#define ISAP_WRAP(P, KT)                                                                              \
static void isap_enc_##P(unsigned char *c, size_t *clen, const unsigned char *m, size_t mlen,        \
                         const unsigned char *ad, size_t adlen, const unsigned char *n, const unsigned char *k) \
{                                                                                                     \
    KT *pk = (KT *)galloc(sizeof(KT), 1);                                                             \
    unsigned char snap[sizeof(KT)];                                                                   \
    P##_isap_aead_init(pk, k);                                                                        \
    memcpy(snap, pk, sizeof(KT));                                                                     \
    P##_isap_aead_encrypt(c, clen, m, mlen, ad, adlen, n, pk);                                        \
    if (memcmp(snap, pk, sizeof(KT)) != 0)                                                            \
        vf_violation("C06", "isap:" #P ":key-modified-by-encrypt", "\"mlen\":%zu,\"adlen\":%zu", mlen, adlen); \
    P##_isap_aead_free(pk);                                                                           \
    gfree(pk);                                                                                        \
}                                                                                                     \
static int isap_dec_##P(unsigned char *m, size_t *mlen, const unsigned char *c, size_t clen,         \
                        const unsigned char *ad, size_t adlen, const unsigned char *n, const unsigned char *k) \
{                                                                                                     \
    KT *pk = (KT *)galloc(sizeof(KT), 0);                                                             \
    unsigned char snap[sizeof(KT)];                                                                   \
    int res;                                                                                          \
    P##_isap_aead_init(pk, k);                                                                        \
    if (cur_rng && rng_below(cur_rng, 3) == 0) {      /* the receiver restores a saved key */          \
        unsigned char saved[80];                                                                      \
        P##_isap_aead_save_key(pk, saved); P##_isap_aead_free(pk); P##_isap_aead_load_key(pk, saved);  \
        vf_count("isap_decrypt_with_restored_key", 1);                                                \
    }                                                                                                 \
    memcpy(snap, pk, sizeof(KT));                                                                     \
    res = P##_isap_aead_decrypt(m, mlen, c, clen, ad, adlen, n, pk);                                  \
    if (memcmp(snap, pk, sizeof(KT)) != 0)                                                            \
        vf_violation("C06", "isap:" #P ":key-modified-by-decrypt", "\"clen\":%zu,\"adlen\":%zu", clen, adlen); \
    P##_isap_aead_free(pk);                                                                           \
    gfree(pk);                                                                                        \
    return res;                                                                                       \
}
ISAP_WRAP(ascon128, ascon128_isap_aead_key_t)
ISAP_WRAP(ascon128a, ascon128a_isap_aead_key_t)
ISAP_WRAP(ascon80pq, ascon80pq_isap_aead_key_t)

static const fam_t FAMS[] = {
    {"ascon128", "C01", K_ONESHOT, REF_128, 16, 8, ascon128_aead_encrypt, ascon128_aead_decrypt},
    {"ascon128a", "C01", K_ONESHOT, REF_128A, 16, 16, ascon128a_aead_encrypt, ascon128a_aead_decrypt},
    {"ascon80pq", "C01", K_ONESHOT, REF_80PQ, 20, 8, ascon80pq_aead_encrypt, ascon80pq_aead_decrypt},
    {"ascon128-inc", "C01", K_INC, REF_128, 16, 8, inc_enc_ascon128, inc_dec_ascon128},
    {"ascon128a-inc", "C01", K_INC, REF_128A, 16, 16, inc_enc_ascon128a, inc_dec_ascon128a},
    {"ascon80pq-inc", "C01", K_INC, REF_80PQ, 20, 8, inc_enc_ascon80pq, inc_dec_ascon80pq},
    {"ascon128-masked", "C01", K_MASKED, REF_128, 16, 8, mask_enc_ascon128, mask_dec_ascon128},
    {"ascon128a-masked", "C01", K_MASKED, REF_128A, 16, 16, mask_enc_ascon128a, mask_dec_ascon128a},
    {"ascon80pq-masked", "C01", K_MASKED, REF_80PQ, 20, 8, mask_enc_ascon80pq, mask_dec_ascon80pq},
    {"ascon128-siv", "C06", K_SIV, REF_128, 16, 8, ascon128_siv_encrypt, ascon128_siv_decrypt},
    {"ascon128a-siv", "C06", K_SIV, REF_128A, 16, 16, ascon128a_siv_encrypt, ascon128a_siv_decrypt},
    {"ascon80pq-siv", "C06", K_SIV, REF_80PQ, 20, 8, ascon80pq_siv_encrypt, ascon80pq_siv_decrypt},
    {"isap128", "C06", K_ISAP, 0, 16, 8, isap_enc_ascon128, isap_dec_ascon128},
    {"isap128a", "C06", K_ISAP, 1, 16, 8, isap_enc_ascon128a, isap_dec_ascon128a},
    {"isap80pq", "C06", K_ISAP, 2, 20, 8, isap_enc_ascon80pq, isap_dec_ascon80pq},
};
#define NFAM (sizeof(FAMS) / sizeof(FAMS[0]))

static void ref_enc(const fam_t *f, uint8_t *c, const uint8_t *m, size_t mlen, const uint8_t *ad, size_t adlen,
                    const uint8_t *n, const uint8_t *k)
{
    if (f->kind == K_SIV) ref_siv_encrypt(f->v, c, m, mlen, ad, adlen, n, k);
    else if (f->kind == K_ISAP) ref_isap_encrypt(f->v, c, m, mlen, ad, adlen, n, k);
    else ref_aead_encrypt(f->v, c, m, mlen, ad, adlen, n, k);
}

/* a test vector in guard-page buffers */
typedef struct { uint8_t *k, *n, *ad, *m, *c; size_t adlen, mlen; int kpat, npat; } vec_t;

static void vec_make(rng_t *r, const fam_t *f, vec_t *v, size_t adlen, size_t mlen, int flip)
{
    v->adlen = adlen; v->mlen = mlen;
    v->k = (uint8_t *)galloc(f->klen, flip & 1);
    v->n = (uint8_t *)galloc(16, (flip >> 1) & 1);
    v->ad = (adlen == 0 && (flip & 4)) ? 0 : (uint8_t *)galloc(adlen, (flip >> 3) & 1);
    v->m = (mlen == 0 && (flip & 16)) ? 0 : (uint8_t *)galloc(mlen, (flip >> 5) & 1);
    v->c = (uint8_t *)galloc(mlen + 16, (flip >> 6) & 1);
    v->kpat = pick_pattern(r); v->npat = pick_pattern(r);
    fill_pattern(r, v->k, f->klen, v->kpat);
    fill_pattern(r, v->n, 16, v->npat);
    if (v->ad) fill_pattern(r, v->ad, adlen, pick_pattern(r));
    if (v->m) fill_pattern(r, v->m, mlen, pick_pattern(r));
}
static void vec_free(vec_t *v)
{
    gfree(v->k); gfree(v->n); if (v->ad) gfree(v->ad); if (v->m) gfree(v->m); gfree(v->c);
}

/* ------------------------------------------------------------ enc mode */
static void lens_for_case(rng_t *r, const fam_t *f, uint64_t sub, size_t maxlen, size_t *adlen, size_t *mlen, int thorough)
{
    unsigned span = thorough ? 4 * f->rate + 3 : 35;
    if (sub < (uint64_t)span * span) { *adlen = (size_t)(sub / span); *mlen = (size_t)(sub % span); return; }
    *adlen = pick_len(r, f->rate, maxlen);
    *mlen = pick_len(r, f->rate, maxlen);
}

static const char *fam_filter = 0;   /* property id: only families of that property */
static const char *prop_override = 0;
static int fam_on(const fam_t *f)
{
    if (!fam_filter) return 1;
    if (!strcmp(fam_filter, "C07")) return f->kind == K_INC;
    if (!strcmp(fam_filter, "C10")) return f->kind == K_MASKED; /* masked == unmasked under every tape */   /* chunking / in-place invariance of the incremental AEAD */
    return !strcmp(fam_filter, f->prop);
}
#define FPROP(f) (prop_override ? prop_override : (f)->prop)
#define DPROP (prop_override ? prop_override : "C02")

static void case_enc(rng_t *r, uint64_t idx, int thorough)
{
    const fam_t *f = &FAMS[idx % NFAM];
    uint64_t sub = idx / NFAM;
    size_t adlen, mlen, clen = (size_t)-1;
    vec_t v;
    uint8_t *exp;
    char key[96], c1[24], c2[24];
    if (!fam_on(f)) return;
    lens_for_case(r, f, sub, thorough ? 65536 : 4096, &adlen, &mlen, thorough);
    if (f->kind == K_ISAP && adlen + mlen > 8192) { adlen %= 4096; mlen %= 4096; }
    vec_make(r, f, &v, adlen, mlen, (int)rng_below(r, 128));
    if (f->kind == K_MASKED) tape_set((int)rng_below(r, TAPE_NMODES), rng_u64(r));
    vf_progress("case=%llu enc %s adlen=%zu mlen=%zu", (unsigned long long)idx, f->name, adlen, mlen);
    exp = (uint8_t *)malloc(mlen + 16);
    ref_enc(f, exp, v.m, mlen, v.ad, adlen, v.n, v.k);
    f->enc(v.c, &clen, v.m, mlen, v.ad, adlen, v.n, v.k);
    vf_out(v.c, mlen + 16); vf_out_int((long)clen);
    snprintf(key, sizeof(key), "enc:%s:ciphertext", f->name);
    vf_eq(FPROP(f), key, "ciphertext||tag", v.c, exp, mlen + 16,
          "\"alg\":\"%s\",\"adlen\":%zu,\"mlen\":%zu,\"key\":\"%s\",\"nonce\":\"%s\",\"ad\":\"%s\",\"m\":\"%s\"",
          f->name, adlen, mlen, vf_h(v.k, f->klen), vf_h(v.n, 16), vf_h(v.ad, adlen), vf_h(v.m, mlen));
    if (clen != mlen + 16) {
        snprintf(key, sizeof(key), "enc:%s:clen", f->name);
        vf_violation(FPROP(f), key, "\"alg\":\"%s\",\"mlen\":%zu,\"clen\":%zu", f->name, mlen, clen);
    }
    if (adlen || mlen)
        vf_distinct("enc|%s|ad%s|m%s|k%s|n%s", f->name, len_class(adlen, f->rate, c1), len_class(mlen, f->rate, c2),
                    pat_name(v.kpat), pat_name(v.npat));
    if (f->kind == K_MASKED) vf_distinct("enc|%s|tape-%s", f->name, tape_name(tape_mode));
    vf_max("max_mlen", (long)mlen); vf_max("max_adlen", (long)adlen);
    if (idx % 977 == 5)
        vf_sample("\"alg\":\"%s\",\"adlen\":%zu,\"mlen\":%zu,\"key\":\"%s\",\"nonce\":\"%s\",\"ct\":\"%s\"", f->name, adlen, mlen,
                  vf_h(v.k, f->klen), vf_h(v.n, 16), vf_h(v.c, mlen + 16));
    /* SIV structure: equal inputs -> equal outputs (second call), C06 */
    if (f->kind == K_SIV && (idx & 7) == 1) {
        uint8_t *c2b = (uint8_t *)galloc(mlen + 16, 1);
        size_t cl2 = 0;
        f->enc(c2b, &cl2, v.m, mlen, v.ad, adlen, v.n, v.k);
        snprintf(key, sizeof(key), "enc:%s:not-deterministic", f->name);
        vf_eq("C06", key, "second encryption", c2b, v.c, mlen + 16, "\"mlen\":%zu", mlen);
        gfree(c2b);
    }
    free(exp);
    vec_free(&v);
}

/* ISAP pre-computed key histories: C06 */
#define ISAP_HIST(P, KT, V, KL)                                                                       \
static void isap_hist_##P(rng_t *r, uint64_t idx)                                                     \
{                                                                                                     \
    KT *pk = (KT *)galloc(sizeof(KT), (int)(idx & 1)), *pk2 = (KT *)galloc(sizeof(KT), 1);            \
    uint8_t k[20], saved[80], saved2[80], expk[80], snap[sizeof(KT)];                                 \
    unsigned npk = 1 + rng_below(r, 20), at = rng_below(r, npk);                                      \
    fill_pattern(r, k, KL, pick_pattern(r));                                                          \
    vf_progress("case=%llu isap-history " #P " packets=%u", (unsigned long long)idx, npk);            \
    P##_isap_aead_init(pk, k);                                                                        \
    memcpy(snap, pk, sizeof(KT));                                                                     \
    ref_isap_precompute(V, expk, k);                                                                  \
    for (unsigned i = 0; i < npk; ++i) {                                                              \
        size_t adlen = pick_len(r, 8, 200), mlen = pick_len(r, 8, 300), clen = 0, mlen2 = 0;          \
        uint8_t n[16];                                                                                \
        uint8_t *ad = (uint8_t *)galloc(adlen, 1), *m = (uint8_t *)galloc(mlen, 0);                   \
        uint8_t *c = (uint8_t *)galloc(mlen + 16, 1), *c2 = (uint8_t *)galloc(mlen + 16, 0), *m2 = (uint8_t *)galloc(mlen, 1); \
        uint8_t *exp = (uint8_t *)malloc(mlen + 16);                                                  \
        rng_bytes(r, n, 16); rng_bytes(r, ad, adlen); rng_bytes(r, m, mlen);                          \
        if (i == at) {                                                                                \
            P##_isap_aead_save_key(pk, saved);                                                        \
            /* the saved format and what save_key does to the object are not constrained by C06 (save_key takes a    \
               non-const key): only behaviour of the loaded key and "not modified by encrypting or decrypting" are;  \
               the saved bytes still go into the transcript for the cross-build comparison of C09 */                   \
            if (memcmp(saved, expk, 80) == 0) vf_count("isap_saved_key_equals_KE_KA", 1);                              \
            P##_isap_aead_load_key(pk2, saved);                                                       \
            P##_isap_aead_save_key(pk2, saved2);                                                      \
            vf_eq("C06", "isap:" #P ":resave-differs", "re-saved key", saved2, saved, 80, "\"i\":%u", i); \
            vf_out(saved, 80);                                                                        \
        }                                                                                             \
        memcpy(snap, pk, sizeof(KT));                                                                 \
        P##_isap_aead_encrypt(c, &clen, m, mlen, ad, adlen, n, pk);                                   \
        if (memcmp(snap, pk, sizeof(KT)) != 0) vf_violation("C06", "isap:" #P ":key-modified-in-history", "\"packet\":%u,\"op\":\"encrypt\"", i); \
        ref_isap_encrypt(V, exp, m, mlen, ad, adlen, n, k);                                           \
        vf_eq("C06", "isap:" #P ":history-ciphertext", "ciphertext of packet in a history", c, exp, mlen + 16, "\"packet\":%u,\"packets\":%u", i, npk); \
        vf_out(c, mlen + 16);                                                                         \
        if (i >= at) {                                                                                \
            P##_isap_aead_encrypt(c2, &clen, m, mlen, ad, adlen, n, pk2);                             \
            vf_eq("C06", "isap:" #P ":loaded-key-differs", "ciphertext under loaded key", c2, c, mlen + 16, "\"packet\":%u", i); \
        }                                                                                             \
        if (P##_isap_aead_decrypt(m2, &mlen2, c, mlen + 16, ad, adlen, n, i >= at && (i & 1) ? pk2 : pk) < 0 || mlen2 != mlen || (mlen && memcmp(m2, m, mlen))) \
            vf_violation("C06", "isap:" #P ":history-decrypt", "\"packet\":%u,\"mlen\":%zu", i, mlen); \
        if (memcmp(snap, pk, sizeof(KT)) != 0) vf_violation("C06", "isap:" #P ":key-modified-in-history", "\"packet\":%u,\"op\":\"decrypt\"", i); \
        free(exp); gfree(ad); gfree(m); gfree(c); gfree(c2); gfree(m2);                               \
        vf_count("isap_history_packets", 1);                                                          \
    }                                                                                                 \
    vf_distinct("isap-history|" #P "|packets%u|saveat%u", npk > 3 ? 4 : npk, at > 3 ? 4 : at);        \
    P##_isap_aead_free(pk);                                                                           \
    if (at < npk) P##_isap_aead_free(pk2);                                                            \
    gfree(pk); gfree(pk2);                                                                            \
}
ISAP_HIST(ascon128, ascon128_isap_aead_key_t, 0, 16)
ISAP_HIST(ascon128a, ascon128a_isap_aead_key_t, 1, 16)
ISAP_HIST(ascon80pq, ascon80pq_isap_aead_key_t, 2, 20)

/* ------------------------------------------------------------ dec mode (C02) */
static long dec_count = 0;

/* run one decryption with (possibly mutated) inputs; expect: want_ok ? success+plaintext : negative (+wipe) */
static void dec_expect(const fam_t *f, const char *mut, int want_ok, const uint8_t *c, size_t clen, const uint8_t *ad, size_t adlen,
                       const uint8_t *n, const uint8_t *k, const uint8_t *m_orig, size_t pos)
{
    size_t mcap = clen >= 16 ? clen - 16 : 0, mlen = (size_t)-1;
    uint8_t *m = (uint8_t *)galloc(mcap, (int)(dec_count & 1));
    uint8_t *cb = (uint8_t *)galloc(clen, (int)((dec_count >> 1) & 1));
    char key[128];
    int res;
    if (clen) memcpy(cb, c, clen);
    ++dec_count;
    res = f->dec(m, &mlen, cb, clen, ad, adlen, n, k);
    vf_out_int(res < 0 ? -1 : 0);
    if (res == -2 && f->kind == K_INC) { gfree(m); gfree(cb); return; }
    if (want_ok) {
        if (res < 0) {
            snprintf(key, sizeof(key), "dec:%s:valid-rejected", f->name);
            vf_violation(DPROP, key, "\"alg\":\"%s\",\"clen\":%zu,\"adlen\":%zu,\"res\":%d", f->name, clen, adlen, res);
        } else {
            snprintf(key, sizeof(key), "dec:%s:plaintext", f->name);
            vf_eq(DPROP, key, "decrypted plaintext", m, m_orig, mcap, "\"alg\":\"%s\",\"clen\":%zu,\"adlen\":%zu", f->name, clen, adlen);
            if (mlen != mcap) {
                snprintf(key, sizeof(key), "dec:%s:mlen", f->name);
                vf_violation(DPROP, key, "\"alg\":\"%s\",\"clen\":%zu,\"mlen\":%zu", f->name, clen, mlen);
            }
            vf_out(m, mcap);
        }
    } else {
        if (res >= 0) {
            snprintf(key, sizeof(key), "dec:%s:forgery-accepted:%s", f->name, mut);
            vf_violation(DPROP, key, "\"alg\":\"%s\",\"mutation\":\"%s\",\"position\":%zu,\"clen\":%zu,\"adlen\":%zu,\"key\":\"%s\",\"nonce\":\"%s\",\"c\":\"%s\"",
                         f->name, mut, pos, clen, adlen, vf_h(k, f->klen), vf_h(n, 16), vf_h(c, clen));
        } else if (f->kind != K_INC && clen >= 16) {
            size_t i;
            for (i = 0; i < mcap && m[i] == 0; ++i) ;
            if (i < mcap) {
                snprintf(key, sizeof(key), "dec:%s:no-wipe", f->name);
                vf_violation(DPROP, key, "\"alg\":\"%s\",\"mutation\":\"%s\",\"mlen\":%zu,\"first_nonzero\":%zu,\"byte\":%u", f->name, mut, mcap, i, m[i]);
            }
        }
        vf_count("forgeries_rejected", res < 0);
    }
    vf_count("decryptions", 1);
    gfree(m); gfree(cb);
}

/* One call carrying more than 65536 full rate blocks (a block counter narrower than size_t wraps; C02-9 of the seeded
 * round 5 escaped because no single call was longer than 64 KiB).  Too long for the per-byte forgery sweep of case_dec:
 * one valid decryption and a handful of forgeries whose changed bit lies in the part a wrapped counter would skip. */
static void case_dec_huge(rng_t *r, uint64_t idx, const fam_t *f)
{
    size_t blocks = 65536u + rng_below(r, 3), tail = rng_below(r, f->rate);
    int which = (int)rng_below(r, 3);          /* 0: long message, 1: long AD, 2: both */
    size_t mlen = which != 1 ? blocks * f->rate + tail : rng_below(r, 40);
    size_t adlen = which != 0 ? blocks * f->rate + rng_below(r, f->rate) : rng_below(r, 40);
    size_t clen = 0, j;
    vec_t v;
    uint8_t *exp, *tmp;
    char key[96];
    vec_make(r, f, &v, adlen, mlen, (int)rng_below(r, 128));
    if (f->kind == K_MASKED) tape_set((int)rng_below(r, TAPE_NMODES), rng_u64(r));
    vf_progress("case=%llu dec-huge %s adlen=%zu mlen=%zu", (unsigned long long)idx, f->name, adlen, mlen);
    exp = (uint8_t *)malloc(mlen + 16);
    ref_enc(f, exp, v.m, mlen, v.ad, adlen, v.n, v.k);
    f->enc(v.c, &clen, v.m, mlen, v.ad, adlen, v.n, v.k);
    snprintf(key, sizeof(key), "enc:%s:ciphertext", f->name);
    vf_eq(FPROP(f), key, "ciphertext||tag (single call of more than 65536 rate blocks)", v.c, exp, mlen + 16,
          "\"alg\":\"%s\",\"adlen\":%zu,\"mlen\":%zu", f->name, adlen, mlen);
    clen = mlen + 16;
    /* decrypt what the specification says the ciphertext is, so that a wrong encryption does not mask the decrypt side */
    dec_expect(f, "none-huge", 1, exp, clen, v.ad, adlen, v.n, v.k, v.m, 0);
    tmp = (uint8_t *)malloc((adlen > clen ? adlen : clen) + 1);
    for (j = 0; j < 3; ++j) {
        size_t pos;
        if (mlen > 70000) {
            pos = j == 0 ? mlen - 1 - rng_below(r, (uint32_t)(mlen / 2)) : j == 1 ? rng_below(r, (uint32_t)mlen) : rng_below(r, 16 * f->rate);
            memcpy(tmp, exp, clen); tmp[pos] ^= (uint8_t)(1u << rng_below(r, 8));
            dec_expect(f, "ct-bit-huge", 0, tmp, clen, v.ad, adlen, v.n, v.k, v.m, pos);
        }
        if (adlen > 70000) {
            pos = j == 0 ? adlen - 1 - rng_below(r, (uint32_t)(adlen / 2)) : j == 1 ? rng_below(r, (uint32_t)adlen) : rng_below(r, 16 * f->rate);
            memcpy(tmp, v.ad, adlen); tmp[pos] ^= (uint8_t)(1u << rng_below(r, 8));
            dec_expect(f, "ad-bit-huge", 0, exp, clen, tmp, adlen, v.n, v.k, v.m, pos);
        }
    }
    memcpy(tmp, exp, clen); tmp[clen - 1 - rng_below(r, 16)] ^= 0x80;
    dec_expect(f, "tag-bit-huge", 0, tmp, clen, v.ad, adlen, v.n, v.k, v.m, 0);
    vf_distinct("dec-huge|%s|%s", f->name, which == 0 ? "long-m" : which == 1 ? "long-ad" : "long-both");
    vf_max("max_mlen", (long)mlen); vf_max("max_adlen", (long)adlen);
    vf_count("huge_single_call_cases", 1);
    free(tmp); free(exp);
    vec_free(&v);
}

static void case_dec(rng_t *r, uint64_t idx, int thorough)
{
    const fam_t *f = &FAMS[idx % NFAM];
    uint64_t sub = idx / NFAM;
    int big = (sub % 5) == 4;
    if (!fam_on(f)) return;
    size_t adlen, mlen, clen = 0, i;
    vec_t v;
    uint8_t *ct, *tmp;
    char c1[24], c2[24];
    if (!big) { adlen = rng_below(r, 2 * f->rate + 2); mlen = rng_below(r, 3 * f->rate + 2); }
    else { adlen = pick_len(r, f->rate, thorough ? 4096 : 600); mlen = pick_len(r, f->rate, thorough ? 8192 : 1200); }
    if (sub == 0) { adlen = 0; mlen = 0; }
    vec_make(r, f, &v, adlen, mlen, (int)rng_below(r, 128));
    if (f->kind == K_MASKED) tape_set((int)rng_below(r, TAPE_NMODES), rng_u64(r));
    vf_progress("case=%llu dec %s adlen=%zu mlen=%zu", (unsigned long long)idx, f->name, adlen, mlen);
    f->enc(v.c, &clen, v.m, mlen, v.ad, adlen, v.n, v.k);
    clen = mlen + 16;
    ct = v.c;
    tmp = (uint8_t *)malloc(clen + 64 + adlen + 32);
    vf_distinct("dec|%s|ad%s|m%s|%s", f->name, len_class(adlen, f->rate, c1), len_class(mlen, f->rate, c2), big ? "sampled" : "allbits");

    dec_expect(f, "none", 1, ct, clen, v.ad, adlen, v.n, v.k, v.m, 0);
    /* ciphertext + tag bits */
    for (i = 0; i < clen; ++i) {
        int allbits = !big || i < f->rate || i + 16 + f->rate >= clen;
        for (unsigned b = 0; b < 8; ++b) {
            if (!allbits && b != (unsigned)rng_below(r, 8)) continue;
            memcpy(tmp, ct, clen); tmp[i] ^= (uint8_t)(1u << b);
            dec_expect(f, i < mlen ? "ct-bit" : "tag-bit", 0, tmp, clen, v.ad, adlen, v.n, v.k, v.m, i * 8 + b);
        }
    }
    /* associated data bits */
    for (i = 0; i < adlen; ++i) {
        int allbits = !big || i < f->rate || i + f->rate >= adlen;
        for (unsigned b = 0; b < 8; ++b) {
            if (!allbits && b != (unsigned)rng_below(r, 8)) continue;
            memcpy(tmp, v.ad, adlen); tmp[i] ^= (uint8_t)(1u << b);
            dec_expect(f, "ad-bit", 0, ct, clen, tmp, adlen, v.n, v.k, v.m, i * 8 + b);
        }
    }
    /* nonce and key bits */
    for (i = 0; i < 16 * 8; ++i) {
        memcpy(tmp, v.n, 16); tmp[i / 8] ^= (uint8_t)(1u << (i % 8));
        dec_expect(f, "nonce-bit", 0, ct, clen, v.ad, adlen, tmp, v.k, v.m, i);
    }
    for (i = 0; i < f->klen * 8; ++i) {
        memcpy(tmp, v.k, f->klen); tmp[i / 8] ^= (uint8_t)(1u << (i % 8));
        dec_expect(f, "key-bit", 0, ct, clen, v.ad, adlen, v.n, tmp, v.m, i);
    }
    /* random multi-bit changes */
    for (i = 0; i < 16; ++i) {
        unsigned nb = 2 + rng_below(r, 6);
        memcpy(tmp, ct, clen);
        for (unsigned j = 0; j < nb; ++j) tmp[rng_below(r, (uint32_t)clen)] ^= (uint8_t)(1 + rng_below(r, 255));
        if (memcmp(tmp, ct, clen) == 0) continue;
        dec_expect(f, "multi-bit", 0, tmp, clen, v.ad, adlen, v.n, v.k, v.m, i);
    }
    /* structured multi-bit tag forgeries: differences that cancel under an XOR/ADD fold, byte swaps, rotations */
    {
        uint8_t *tg = tmp + mlen;
        int slow = (f->kind == K_ISAP || f->kind == K_MASKED);
        if (!slow || (sub % 8) == 1) {
            for (unsigned b1 = 0; b1 < 128; ++b1)
                for (unsigned b2 = b1 + 1; b2 < 128; ++b2) {
                    if (big && ((b1 ^ b2) & 7)) continue;           /* long messages: same bit position in two bytes only */
                    memcpy(tmp, ct, clen); tg[b1 / 8] ^= (uint8_t)(1u << (b1 % 8)); tg[b2 / 8] ^= (uint8_t)(1u << (b2 % 8));
                    dec_expect(f, "tag-2bit", 0, tmp, clen, v.ad, adlen, v.n, v.k, v.m, b1 * 128 + b2);
                }
        }
        for (unsigned i1 = 0; i1 < 16; ++i1)
            for (unsigned i2 = i1 + 1; i2 < 16; ++i2) {
                uint8_t d = (uint8_t)(1 + rng_below(r, 255));
                if (slow && ((i2 - i1) & (i2 - i1 - 1))) continue;  /* distances 1,2,4,8 only for the slow families */
                memcpy(tmp, ct, clen); tg[i1] ^= d; tg[i2] ^= d;
                dec_expect(f, "tag-xor-cancel", 0, tmp, clen, v.ad, adlen, v.n, v.k, v.m, i1 * 16 + i2);
                memcpy(tmp, ct, clen); tg[i1] = (uint8_t)(tg[i1] + d); tg[i2] = (uint8_t)(tg[i2] - d);
                dec_expect(f, "tag-add-cancel", 0, tmp, clen, v.ad, adlen, v.n, v.k, v.m, i1 * 16 + i2);
                if (ct[mlen + i1] != ct[mlen + i2]) {
                    memcpy(tmp, ct, clen); tg[i1] = ct[mlen + i2]; tg[i2] = ct[mlen + i1];
                    dec_expect(f, "tag-swap", 0, tmp, clen, v.ad, adlen, v.n, v.k, v.m, i1 * 16 + i2);
                }
            }
        for (unsigned rot = 1; rot < 16; ++rot) {
            memcpy(tmp, ct, clen);
            for (unsigned i1 = 0; i1 < 16; ++i1) tg[i1] = ct[mlen + (i1 + rot) % 16];
            if (memcmp(tmp, ct, clen)) dec_expect(f, "tag-rotate", 0, tmp, clen, v.ad, adlen, v.n, v.k, v.m, rot);
        }
        /* same delta in two ciphertext bytes one rate block apart (cancels in a block-wise fold) */
        for (i = 0; i + f->rate < mlen && i < 64; ++i) {
            uint8_t d = (uint8_t)(1 + rng_below(r, 255));
            memcpy(tmp, ct, clen); tmp[i] ^= d; tmp[i + f->rate] ^= d;
            dec_expect(f, "ct-xor-cancel", 0, tmp, clen, v.ad, adlen, v.n, v.k, v.m, i);
        }
    }
    /* tag replaced by: all zero, tag with last byte only wrong, first byte only wrong, tag of another message */
    memcpy(tmp, ct, clen); memset(tmp + mlen, 0, 16); if (memcmp(tmp, ct, clen)) dec_expect(f, "tag-zero", 0, tmp, clen, v.ad, adlen, v.n, v.k, v.m, 0);
    memcpy(tmp, ct, clen); tmp[clen - 1] = (uint8_t)~tmp[clen - 1]; dec_expect(f, "tag-lastbyte", 0, tmp, clen, v.ad, adlen, v.n, v.k, v.m, 0);
    memcpy(tmp, ct, clen); tmp[mlen] = (uint8_t)~tmp[mlen]; dec_expect(f, "tag-firstbyte", 0, tmp, clen, v.ad, adlen, v.n, v.k, v.m, 0);
    /* truncation by 1..17 bytes and extension by 1..17 bytes; every clen in 0..15 */
    for (i = 1; i <= 17 && i <= clen; ++i) {
        dec_expect(f, "truncate-tail", 0, ct, clen - i, v.ad, adlen, v.n, v.k, v.m, i);
        if (clen - i >= 16) dec_expect(f, "truncate-head", 0, ct + i, clen - i, v.ad, adlen, v.n, v.k, v.m, i);
    }
    for (i = 1; i <= 17; ++i) {
        memcpy(tmp, ct, clen); rng_bytes(r, tmp + clen, i);
        dec_expect(f, "extend-tail", 0, tmp, clen + i, v.ad, adlen, v.n, v.k, v.m, i);
        memcpy(tmp + i, ct, clen); memset(tmp, 0, i);
        dec_expect(f, "extend-head", 0, tmp, clen + i, v.ad, adlen, v.n, v.k, v.m, i);
    }
    if (f->kind != K_INC)
        for (i = 0; i < 16; ++i) dec_expect(f, "short-input", 0, ct + (clen - i), i, v.ad, adlen, v.n, v.k, v.m, i);
    /* AD truncated / extended */
    if (adlen) dec_expect(f, "ad-truncate", 0, ct, clen, v.ad, adlen - 1, v.n, v.k, v.m, 0);
    memcpy(tmp, v.ad ? v.ad : (const uint8_t *)"", adlen); tmp[adlen] = 0;
    dec_expect(f, "ad-extend-zero", 0, ct, clen, tmp, adlen + 1, v.n, v.k, v.m, 0);
    tmp[adlen] = 0x80;
    dec_expect(f, "ad-extend-pad", 0, ct, clen, tmp, adlen + 1, v.n, v.k, v.m, 0);
    if (idx % 211 == 3)
        vf_sample("\"alg\":\"%s\",\"adlen\":%zu,\"mlen\":%zu,\"mutations\":\"every bit of ct,tag,ad,nonce,key; trunc/extend 1..17; short 0..15\"", f->name, adlen, mlen);
    free(tmp);
    vec_free(&v);
}

/* ------------------------------------------------------------ sess mode (C14, C API) */
static void carry_nonce(rng_t *r, uint8_t n[16], unsigned *chain)
{
    /* ..00 FF^k : carry chain of length k (0..16) */
    unsigned k = rng_below(r, 18);
    rng_bytes(r, n, 16);
    if (k <= 16) {
        memset(n + 16 - k, 0xff, k);
        if (k < 16) n[15 - k] &= 0xfe; /* stop the chain */
        *chain = k;
    } else *chain = 99;
}

#define SESS(P, ST, V, KL, ONE_ENC)                                                                   \
static void sess_##P(rng_t *r, uint64_t idx)                                                          \
{                                                                                                     \
    ST *st = (ST *)galloc(sizeof(ST), (int)(idx & 1));                                                \
    uint8_t n0[16], ni[16], k[KL];                                                                    \
    unsigned chain, npk = 1 + rng_below(r, 6);                                                        \
    carry_nonce(r, n0, &chain);                                                                       \
    if (chain > 2 && chain <= 16 && rng_below(r, 2)) { /* start a few steps before the wrap */        \
        unsigned back = rng_below(r, npk + 1); uint8_t t[16]; memcpy(t, n0, 16);                      \
        for (unsigned j = 0; j < back; ++j) { int q = 15; while (q >= 0 && t[q]-- == 0) --q; }        \
        memcpy(n0, t, 16);                                                                            \
    }                                                                                                 \
    fill_pattern(r, k, KL, pick_pattern(r));                                                          \
    vf_progress("case=%llu sess " #P " packets=%u chain=%u", (unsigned long long)idx, npk, chain);    \
    P##_aead_init(st, n0, k);                                                                         \
    if (memcmp(st->nonce, n0, 16) != 0) vf_violation("C14", "sess:" #P ":nonce-after-init", "\"n0\":\"%s\",\"field\":\"%s\"", vf_h(n0, 16), vf_h(st->nonce, 16)); \
    for (unsigned i = 0; i < npk; ++i) {                                                              \
        size_t adlen = pick_len(r, 8, 64), mlen = pick_len(r, 8, 100), cl = 0;                        \
        uint8_t *ad = (uint8_t *)galloc(adlen, 1), *m = (uint8_t *)galloc(mlen, 1), *c = (uint8_t *)galloc(mlen + 16, 1); \
        uint8_t *exp = (uint8_t *)galloc(mlen + 16, 0), *m2 = (uint8_t *)galloc(mlen, 0);             \
        uint8_t want[16];                                                                             \
        int mode = (int)rng_below(r, 3); /* 0 encrypt, 1 good decrypt, 2 bad decrypt */               \
        int nonce_ok;                                                                                 \
        rng_bytes(r, ad, adlen); rng_bytes(r, m, mlen);                                               \
        memcpy(ni, n0, 16); ref_nonce_add(ni, i);                                                     \
        memcpy(want, n0, 16); ref_nonce_add(want, i + 1);                                             \
        ONE_ENC(exp, &cl, m, mlen, ad, adlen, ni, k);                                                 \
        P##_aead_start(st, ad, adlen);                                                                \
        nonce_ok = memcmp(st->nonce, want, 16) == 0;                                                  \
        if (!nonce_ok)                                                                                \
            vf_violation("C14", "sess:" #P ":nonce-field", "\"n0\":\"%s\",\"packet\":%u,\"field\":\"%s\",\"want\":\"%s\"", vf_h(n0, 16), i, vf_h(st->nonce, 16), vf_h(want, 16)); \
        vf_out(st->nonce, 16);                                                                        \
        if (mode == 0) {                                                                              \
            P##_aead_encrypt_block(st, m, c, mlen);                                                   \
            P##_aead_encrypt_finalize(st, c + mlen);                                                  \
            vf_eq("C14", "sess:" #P ":packet-ciphertext", "packet i vs one-shot under N+i", c, exp, mlen + 16, "\"n0\":\"%s\",\"packet\":%u,\"chain\":%u", vf_h(n0, 16), i, chain); \
            /* the nonce field was right: then a wrong packet is (also) a wrong incremental encryption */ \
            /* C01 names the incremental entry point: packet i must be the specification's value under N+i whatever the root cause \
               (nonce_field_ok = 0 points at C14) */ \
            vf_eq("C01", "sess:" #P ":packet-ciphertext", "packet i of a session vs one-shot under N+i", c, exp, mlen + 16, "\"n0\":\"%s\",\"packet\":%u,\"mlen\":%zu,\"nonce_field_ok\":%d", vf_h(n0, 16), i, mlen, nonce_ok); \
            if (nonce_ok) vf_eq("C07", "sess:" #P ":packet-ciphertext", "packet i on a used state vs one-shot (nonce field correct)", c, exp, mlen + 16, "\"n0\":\"%s\",\"packet\":%u,\"mlen\":%zu", vf_h(n0, 16), i, mlen); \
            vf_out(c, mlen + 16);                                                                     \
        } else {                                                                                      \
            int res;                                                                                  \
            if (mode == 2) exp[mlen + rng_below(r, 16)] ^= 0x10;                                      \
            P##_aead_decrypt_block(st, exp, m2, mlen);                                                \
            res = P##_aead_decrypt_finalize(st, exp + mlen);                                          \
            if ((mode == 1) != (res >= 0)) vf_violation("C14", "sess:" #P ":packet-decrypt", "\"n0\":\"%s\",\"packet\":%u,\"mode\":%d,\"res\":%d", vf_h(n0, 16), i, mode, res); \
            /* the packet was made by the reference under N+i, the nonce the session must be using: a genuine packet that is rejected \
               (or a forged one that is accepted) breaks C02 for the user whatever the root cause; nonce_field_ok = 0 points at C14 */ \
            if ((mode == 1) != (res >= 0)) vf_violation("C02", mode == 1 ? "sess:" #P ":valid-packet-rejected" : "sess:" #P ":forged-packet-accepted", "\"n0\":\"%s\",\"packet\":%u,\"mlen\":%zu,\"res\":%d,\"nonce_field_ok\":%d", vf_h(n0, 16), i, mlen, res, nonce_ok); \
            if (nonce_ok && mode == 1 && res < 0) vf_violation("C07", "sess:" #P ":valid-packet-rejected", "\"n0\":\"%s\",\"packet\":%u,\"mlen\":%zu,\"res\":%d,\"note\":\"the one-shot decryption of the same packet succeeds\"", vf_h(n0, 16), i, mlen, res); \
            if (nonce_ok && mode == 1 && res >= 0) vf_eq("C07", "sess:" #P ":packet-plaintext", "packet i decrypted on a used state vs one-shot", m2, m, mlen, "\"packet\":%u", i); \
            if (mode == 1) vf_eq("C14", "sess:" #P ":packet-plaintext", "decrypted packet", m2, m, mlen, "\"packet\":%u", i); \
            vf_out_int(res < 0);                                                                      \
        }                                                                                             \
        gfree(ad); gfree(m); gfree(c); gfree(exp); gfree(m2);                                         \
        vf_count("session_packets", 1);                                                               \
    }                                                                                                 \
    vf_distinct("sess|" #P "|chain%u|packets%u", chain, npk);                                         \
    if (idx % 301 == 2) vf_sample("\"session\":\"" #P "\",\"n0\":\"%s\",\"packets\":%u,\"carry_chain\":%u", vf_h(n0, 16), npk, chain); \
    P##_aead_free(st);                                                                                \
    gfree(st);                                                                                        \
}
SESS(ascon128, ascon128_state_t, 0, 16, ascon128_aead_encrypt)
SESS(ascon128a, ascon128a_state_t, 1, 16, ascon128a_aead_encrypt)
SESS(ascon80pq, ascon80pq_state_t, 2, 20, ascon80pq_aead_encrypt)

static void nonce_helpers(rng_t *r, uint64_t idx)
{
    uint8_t *n = (uint8_t *)galloc(16, (int)(idx & 1));
    uint8_t exp[16];
    unsigned chain;
    uint64_t ctr = rng_below(r, 4) == 0 ? ~(uint64_t)0 - rng_below(r, 3) : rng_u64(r) >> rng_below(r, 64);
    vf_progress("case=%llu nonce helpers", (unsigned long long)idx);
    carry_nonce(r, n, &chain);
    memcpy(exp, n, 16); ref_nonce_add(exp, 1);
    ascon_aead_increment_nonce(n);
    vf_eq("C14", "nonce:increment", "ascon_aead_increment_nonce", n, exp, 16, "\"chain\":%u", chain);
    vf_out(n, 16);
    memset(n, 0xAA, 16);
    ascon_aead_set_counter(n, ctr);
    memset(exp, 0, 8);
    for (int i = 0; i < 8; ++i) exp[8 + i] = (uint8_t)(ctr >> (56 - 8 * i));
    vf_eq("C14", "nonce:set_counter", "ascon_aead_set_counter", n, exp, 16, "\"counter\":\"%llx\"", (unsigned long long)ctr);
    vf_out(n, 16);
    vf_distinct("nonce-helper|chain%u", chain);
    gfree(n);
}

int main(int argc, char **argv)
{
    vf_args_t a;
    const char *mode;
    uint64_t idx, n;
    vf_prop = "C01";
    vf_parse_args(argc, argv, &a);
    mode = a.arg ? a.arg : "enc";
    if (strchr(mode, ':')) { static char mb[32]; snprintf(mb, sizeof(mb), "%s", mode); *strchr(mb, ':') = 0; fam_filter = strchr(mode, ':') + 1; mode = mb; if (!strcmp(fam_filter, "C07")) prop_override = "C07"; if (!strcmp(fam_filter, "C10")) prop_override = "C10"; }
    if (!strcmp(mode, "enc")) {
        /* exhaustive small grid per family first: (4r+3)^2 <= 67^2 = 4489 sub-cases, then random */
        uint64_t grid = 35ull * 35ull, gridmax = 67ull * 67ull;
        n = (a.thorough ? gridmax : grid) * NFAM + (uint64_t)(a.cases >= 0 ? a.cases : 20000);
        for (idx = 0; idx < n; ++idx) {
            rng_t r;
            if (!vf_mine(&a, idx)) continue;
            rng_seed(&r, a.seed, idx); cur_rng = &r;
            if (!fam_on(&FAMS[idx % NFAM])) continue;
            vf_case_begin(idx);
            case_enc(&r, idx, a.thorough);
            vf_case_end();
            vf_count("cases", 1);
        }
        /* ISAP key histories */
        for (idx = 0; idx < (uint64_t)(fam_filter && strcmp(fam_filter, "C06") ? 0 : a.thorough ? 3000 : 300); ++idx) {
            rng_t r;
            uint64_t id2 = (1ull << 40) + idx;
            if (!vf_mine(&a, id2)) continue;
            rng_seed(&r, a.seed, id2); cur_rng = &r;
            vf_case_begin(id2);
            switch (idx % 3) { case 0: isap_hist_ascon128(&r, id2); break; case 1: isap_hist_ascon128a(&r, id2); break; default: isap_hist_ascon80pq(&r, id2); }
            vf_case_end();
            vf_count("cases", 1);
        }
    } else if (!strcmp(mode, "dec")) {
        n = (uint64_t)(a.cases >= 0 ? a.cases : 450);
        for (idx = 0; idx < n; ++idx) {
            rng_t r;
            if (!vf_mine(&a, idx)) continue;
            rng_seed(&r, a.seed ^ 0xdec, idx); cur_rng = &r;
            vf_case_begin(idx);
            case_dec(&r, idx, a.thorough);
            vf_case_end();
            vf_count("cases", 1);
        }
        /* one (thorough: three) single call(s) of more than 65536 rate blocks per family */
        /* (only in the full-size decrypt workload of C02 / thorough C10: the short dec runs of the sanitizer, valgrind and
         *  cross-configuration checks keep their cost) */
        for (idx = 0; (a.cases < 0 || a.cases >= 500) && idx < (uint64_t)NFAM * (a.thorough ? 3 : 1); ++idx) {
            rng_t r;
            uint64_t id2 = (1ull << 41) + idx;
            if (!vf_mine(&a, id2)) continue;
            if (!fam_on(&FAMS[idx % NFAM])) continue;
            rng_seed(&r, a.seed ^ 0xdec, id2); cur_rng = &r;
            vf_case_begin(id2);
            case_dec_huge(&r, id2, &FAMS[idx % NFAM]);
            vf_case_end();
            vf_count("cases", 1);
        }
    } else if (!strcmp(mode, "sess")) {
        n = (uint64_t)(a.cases >= 0 ? a.cases : 6000);
        for (idx = 0; idx < n; ++idx) {
            rng_t r;
            if (!vf_mine(&a, idx)) continue;
            rng_seed(&r, a.seed ^ 0x5e55, idx); cur_rng = &r;
            vf_case_begin(idx);
            switch (idx % 4) { case 0: sess_ascon128(&r, idx); break; case 1: sess_ascon128a(&r, idx); break; case 2: sess_ascon80pq(&r, idx); break; default: nonce_helpers(&r, idx); }
            vf_case_end();
            vf_count("cases", 1);
        }
    } else { fprintf(stderr, "HARNESS unknown mode %s\n", mode); return 2; }
    gcheck_all("end");
    vf_finish();
    return 0;
}
