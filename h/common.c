#include "common.h"
#include <errno.h>

const char *vf_prop = "C00";
uint64_t vf_seed = 1;
uint64_t vf_case = 0;
long vf_violations = 0;
const char *vf_build = "?";

static char *progress_page = 0;

void vf_hex(char *dst, const uint8_t *p, size_t n, size_t maxbytes)
{
    static const char d[] = "0123456789abcdef";
    size_t i, m = n < maxbytes ? n : maxbytes;
    for (i = 0; i < m; ++i) { dst[2 * i] = d[p[i] >> 4]; dst[2 * i + 1] = d[p[i] & 15]; }
    dst[2 * m] = 0;
    if (m < n) strcat(dst, "..");
}

const char *vf_h(const uint8_t *p, size_t n)
{
    static char slots[8][2 * 96 + 4];
    static int cur = 0;
    char *s = slots[cur++ & 7];
    if (!p) { strcpy(s, "null"); return s; }
    vf_hex(s, p, n, 96);
    return s;
}

/* per-key cap so that one systematic failure does not flood the log */
#define MAXKEYS 256
static struct { char key[160]; long n; } keytab[MAXKEYS];
static int nkeys = 0;

void vf_violation(const char *prop, const char *key, const char *json_fmt, ...)
{
    va_list ap;
    int i;
    ++vf_violations;
    for (i = 0; i < nkeys; ++i)
        if (!strcmp(keytab[i].key, key)) break;
    if (i == nkeys) {
        if (nkeys < MAXKEYS) { snprintf(keytab[i].key, sizeof(keytab[i].key), "%s", key); keytab[i].n = 0; ++nkeys; }
        else i = MAXKEYS - 1;
    }
    if (++keytab[i].n > 3) return;
    printf("V\t%s\t%s\t{\"build\":\"%s\",\"seed\":%llu,\"case\":%llu,", prop ? prop : vf_prop, key, vf_build,
           (unsigned long long)vf_seed, (unsigned long long)vf_case);
    va_start(ap, json_fmt);
    vprintf(json_fmt, ap);
    va_end(ap);
    printf("}\n");
    fflush(stdout);
}

/* distinct tokens: open-addressing set of 64-bit hashes */
#define DSET (1u << 16)
static uint64_t dset[DSET];
static long ndistinct = 0;

void vf_distinct(const char *fmt, ...)
{
    char buf[256];
    va_list ap;
    uint64_t h = 1469598103934665603ULL;
    unsigned i;
    va_start(ap, fmt);
    vsnprintf(buf, sizeof(buf), fmt, ap);
    va_end(ap);
    for (const char *p = buf; *p; ++p) { h ^= (uint8_t)*p; h *= 1099511628211ULL; }
    if (!h) h = 1;
    i = (unsigned)(h >> 20) & (DSET - 1);
    while (dset[i]) {
        if (dset[i] == h) return;
        i = (i + 1) & (DSET - 1);
    }
    if (ndistinct > (long)(DSET / 2)) return;
    dset[i] = h;
    ++ndistinct;
    printf("D\t%s\n", buf);
}

static long nsamples = 0;
void vf_sample(const char *json_fmt, ...)
{
    va_list ap;
    if (nsamples >= 3) return;
    ++nsamples;
    printf("X\t{\"build\":\"%s\",\"case\":%llu,", vf_build, (unsigned long long)vf_case);
    va_start(ap, json_fmt);
    vprintf(json_fmt, ap);
    va_end(ap);
    printf("}\n");
}

#define MAXCNT 128
static struct { char name[64]; long v; int ismax; } cnt[MAXCNT];
static int ncnt = 0;
static int cnt_find(const char *name, int ismax)
{
    int i;
    for (i = 0; i < ncnt; ++i)
        if (!strcmp(cnt[i].name, name)) return i;
    if (ncnt >= MAXCNT) return MAXCNT - 1;
    snprintf(cnt[ncnt].name, sizeof(cnt[ncnt].name), "%s", name);
    cnt[ncnt].v = 0; cnt[ncnt].ismax = ismax;
    return ncnt++;
}
void vf_count(const char *name, long add) { cnt[cnt_find(name, 0)].v += add; }
void vf_max(const char *name, long v) { int i = cnt_find(name, 1); if (v > cnt[i].v) cnt[i].v = v; }
void vf_flush_counters(void)
{
    for (int i = 0; i < ncnt; ++i) printf("%c\t%s\t%ld\n", cnt[i].ismax ? 'M' : 'S', cnt[i].name, cnt[i].v);
    fflush(stdout);
}

void vf_progress(const char *fmt, ...)
{
    va_list ap;
    if (!progress_page) return;
    va_start(ap, fmt);
    vsnprintf(progress_page, 4000, fmt, ap);
    va_end(ap);
}

int vf_eq(const char *prop, const char *key, const char *what, const uint8_t *got, const uint8_t *exp, size_t n,
          const char *ctx_fmt, ...)
{
    char ctx[1024];
    va_list ap;
    size_t i;
    if (n == 0 || memcmp(got, exp, n) == 0) return 1;
    for (i = 0; i < n && got[i] == exp[i]; ++i) ;
    va_start(ap, ctx_fmt);
    vsnprintf(ctx, sizeof(ctx), ctx_fmt, ap);
    va_end(ap);
    {
        size_t from = i >= 8 ? i - 8 : 0, len = n - from > 48 ? 48 : n - from;
        vf_violation(prop, key, "\"what\":\"%s\",\"len\":%zu,\"first_diff\":%zu,\"got@%zu\":\"%s\",\"exp@%zu\":\"%s\",%s",
                     what, n, i, from, vf_h(got + from, len), from, vf_h(exp + from, len), ctx);
    }
    return 0;
}

/* ---------------------------------------------------------------- guard allocator */
#define GMAX 512
#define GCANARY 0xC5
static struct gobj { uint8_t *base; size_t maplen; uint8_t *obj; size_t n; } gtab[GMAX];
static size_t pagesz = 0;

/* pool of unmapped-on-exit mappings (data area of exactly one or two pages) so that the
 * common small objects do not cost three system calls each */
#define GPOOL 64
static struct { uint8_t *base; size_t maplen; } gpool[GPOOL];
static int gpool_n = 0;

void *galloc(size_t n, int end)
{
    size_t data, i;
    uint8_t *base = 0, *obj;
    int slot;
    if (!pagesz) pagesz = (size_t)sysconf(_SC_PAGESIZE);
    data = ((n + pagesz - 1) / pagesz) * pagesz;
    if (data == 0) data = pagesz;
    for (slot = 0; slot < GMAX && gtab[slot].base; ++slot) ;
    if (slot == GMAX) { fprintf(stderr, "HARNESS galloc table full\n"); exit(2); }
    for (int k = gpool_n - 1; k >= 0; --k)
        if (gpool[k].maplen == data + 2 * pagesz) { base = gpool[k].base; gpool[k] = gpool[--gpool_n]; break; }
    if (!base) {
        base = (uint8_t *)mmap(0, data + 2 * pagesz, PROT_READ | PROT_WRITE, MAP_PRIVATE | MAP_ANONYMOUS, -1, 0);
        if (base == MAP_FAILED) { fprintf(stderr, "HARNESS mmap failed\n"); exit(2); }
        mprotect(base, pagesz, PROT_NONE);
        mprotect(base + pagesz + data, pagesz, PROT_NONE);
    }
    memset(base + pagesz, GCANARY, data);
    obj = end ? base + pagesz + data - n : base + pagesz;
    for (i = 0; i < n; ++i) obj[i] = GPAT;
    gtab[slot].base = base; gtab[slot].maplen = data + 2 * pagesz; gtab[slot].obj = obj; gtab[slot].n = n;
    return obj;
}

static void grelease(struct gobj *g)
{
    if (gpool_n < GPOOL && g->maplen <= 4 * pagesz) { gpool[gpool_n].base = g->base; gpool[gpool_n].maplen = g->maplen; ++gpool_n; }
    else munmap(g->base, g->maplen);
    g->base = 0;
}

static int gcheck_one(struct gobj *g, const char *where)
{
    uint8_t *lo = g->base + pagesz, *hi = g->base + g->maplen - pagesz, *p;
    for (p = lo; p < g->obj; ++p)
        if (*p != GCANARY) goto bad;
    for (p = g->obj + g->n; p < hi; ++p)
        if (*p != GCANARY) goto bad;
    return 0;
bad:
    vf_violation("C12", "stray-write:guard-slack", "\"where\":\"%s\",\"objlen\":%zu,\"offset\":%ld", where, g->n, (long)(p - g->obj));
    return 1;
}

int gcheck_all(const char *where)
{
    int bad = 0;
    for (int i = 0; i < GMAX; ++i)
        if (gtab[i].base) bad += gcheck_one(&gtab[i], where);
    return bad;
}

void gfree(void *p)
{
    if (!p) return;
    for (int i = 0; i < GMAX; ++i) {
        if (gtab[i].base && gtab[i].obj == (uint8_t *)p) {
            gcheck_one(&gtab[i], "gfree");
            grelease(&gtab[i]);
            return;
        }
    }
    fprintf(stderr, "HARNESS gfree of unknown pointer\n");
    exit(2);
}

void gfree_all(void)
{
    for (int i = 0; i < GMAX; ++i) {
        if (gtab[i].base) {
            gcheck_one(&gtab[i], "gfree_all");
            grelease(&gtab[i]);
        }
    }
}

/* ---------------------------------------------------------------- args */
void vf_parse_args(int argc, char **argv, vf_args_t *a)
{
    memset(a, 0, sizeof(*a));
    a->seed = 1; a->nshards = 1; a->cases = -1; a->only = -1; a->mode = "check";
    for (int i = 1; i < argc; ++i) {
        const char *s = argv[i], *v = i + 1 < argc ? argv[i + 1] : "";
        if (!strcmp(s, "--seed")) { a->seed = strtoull(v, 0, 10); ++i; }
        else if (!strcmp(s, "--shard")) { sscanf(v, "%u/%u", &a->shard, &a->nshards); ++i; }
        else if (!strcmp(s, "--cases")) { a->cases = atol(v); ++i; }
        else if (!strcmp(s, "--only")) { a->only = atol(v); ++i; }
        else if (!strcmp(s, "--thorough")) a->thorough = 1;
        else if (!strcmp(s, "--mode")) { a->mode = v; ++i; }
        else if (!strcmp(s, "--progress")) { a->progress = v; ++i; }
        else if (!strcmp(s, "--build")) { vf_build = v; ++i; }
        else if (!strcmp(s, "--arg")) { a->arg = v; ++i; }
        else { fprintf(stderr, "HARNESS unknown argument %s\n", s); exit(2); }
    }
    if (a->nshards == 0) a->nshards = 1;
    vf_seed = a->seed;
    vf_transcript_on = !strcmp(a->mode, "transcript");
    if (a->progress) {
        int fd = open(a->progress, O_RDWR | O_CREAT, 0600);
        if (fd >= 0 && ftruncate(fd, 4096) == 0) {
            void *p = mmap(0, 4096, PROT_READ | PROT_WRITE, MAP_SHARED, fd, 0);
            if (p != MAP_FAILED) progress_page = (char *)p;
        }
        if (fd >= 0) close(fd);
    }
    setvbuf(stdout, 0, _IOFBF, 1 << 16);
}

int vf_transcript_on = 0;
static uint64_t th0, th1, tall0, tall1;
static long tcases = 0;
void vf_case_begin(uint64_t idx)
{
    vf_case = idx;
    th0 = 0x243f6a8885a308d3ULL ^ idx; th1 = 0x13198a2e03707344ULL;
}
void vf_out(const void *p, size_t n)
{
    const uint8_t *b = (const uint8_t *)p;
    for (size_t i = 0; i < n; ++i) {
        th0 = (th0 ^ b[i]) * 0x100000001b3ULL;
        th1 = (th1 + b[i] + (th0 >> 29)) * 0x9e3779b97f4a7c15ULL;
        th1 ^= th1 >> 32;
    }
    th0 ^= n; th0 *= 0x100000001b3ULL;
}
void vf_out_int(long v) { vf_out(&v, sizeof(v)); }
void vf_case_end(void)
{
    ++tcases;
    tall0 = (tall0 ^ th0) * 0x100000001b3ULL + th1;
    tall1 = (tall1 + th1) * 0x9e3779b97f4a7c15ULL ^ th0;
    if (vf_transcript_on) printf("t\t%llu\t%016llx%016llx\n", (unsigned long long)vf_case, (unsigned long long)th0, (unsigned long long)th1);
}

void vf_finish(void)
{
    printf("T\t%ld\t%016llx%016llx\n", tcases, (unsigned long long)tall0, (unsigned long long)tall1);
    vf_progress("done");
    vf_flush_counters();
    printf("S\tharness_violations\t%ld\n", vf_violations);
    printf("E\tend\n");
    fflush(stdout);
}
