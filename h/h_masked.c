/* C10: masked permutations, masked-word toolkit and masked keys against one-line
 * models on the UNMASKED value, for every share count the build supports and
 * under chosen random tapes delivered through the TRNG interposer.
 * (Masked AEAD == reference is run by h_aead --arg enc:C10 / dec:C10.)
 */
#include "common.h"
#include "ascon_ref.h"
#include "trng_tape.h"
#include <ascon/permutation.h>
#include <ascon/masking.h>
#include "masking/ascon-masked-state.h"

static rng_t *R;
static ascon_trng_state_t trng;

#define KS ASCON_MASKED_KEY_SHARES
#define DS ASCON_MASKED_DATA_SHARES
#define MS ASCON_MASKED_MAX_SHARES

/* ------------------------------------------------------------ per share-count function tables */
typedef struct {
    int n;
    void (*zero)(ascon_masked_word_t *, ascon_trng_state_t *);
    void (*load)(ascon_masked_word_t *, const uint8_t *, ascon_trng_state_t *);
    void (*load_partial)(ascon_masked_word_t *, const uint8_t *, unsigned, ascon_trng_state_t *);
    void (*load_32)(ascon_masked_word_t *, const uint8_t *, const uint8_t *, ascon_trng_state_t *);
    void (*store)(uint8_t *, const ascon_masked_word_t *);
    void (*store_partial)(uint8_t *, unsigned, const ascon_masked_word_t *);
    void (*randomize)(ascon_masked_word_t *, const ascon_masked_word_t *, ascon_trng_state_t *);
    void (*xor_)(ascon_masked_word_t *, const ascon_masked_word_t *);
    void (*replace)(ascon_masked_word_t *, const ascon_masked_word_t *, unsigned);
    void (*from[5])(ascon_masked_word_t *, const ascon_masked_word_t *, ascon_trng_state_t *);
    void (*st_randomize)(ascon_masked_state_t *, ascon_trng_state_t *);
    void (*permute)(ascon_masked_state_t *, uint8_t, uint64_t *);
    void (*copy_from_x1)(ascon_masked_state_t *, const ascon_state_t *, ascon_trng_state_t *);
    void (*copy_to_x1)(ascon_state_t *, const ascon_masked_state_t *);
    void (*copy_from[5])(ascon_masked_state_t *, const ascon_masked_state_t *, ascon_trng_state_t *);
} ops_t;

#define OPS_COMMON(N) N, ascon_masked_word_x##N##_zero, ascon_masked_word_x##N##_load, ascon_masked_word_x##N##_load_partial, \
    ascon_masked_word_x##N##_load_32, ascon_masked_word_x##N##_store, ascon_masked_word_x##N##_store_partial, \
    ascon_masked_word_x##N##_randomize, ascon_masked_word_x##N##_xor, ascon_masked_word_x##N##_replace

static const ops_t OPS[] = {
    { OPS_COMMON(2),
      {0, 0, 0,
#if MS >= 3
       ascon_masked_word_x2_from_x3,
#else
       0,
#endif
#if MS >= 4
       ascon_masked_word_x2_from_x4
#else
       0
#endif
      }, ascon_x2_randomize, ascon_x2_permute, ascon_x2_copy_from_x1, ascon_x2_copy_to_x1,
      {0, 0, ascon_x2_copy_from_x2,
#if MS >= 3
       ascon_x2_copy_from_x3,
#else
       0,
#endif
#if MS >= 4
       ascon_x2_copy_from_x4
#else
       0
#endif
      } },
#if MS >= 3
    { OPS_COMMON(3),
      {0, 0, ascon_masked_word_x3_from_x2, 0,
#if MS >= 4
       ascon_masked_word_x3_from_x4
#else
       0
#endif
      }, ascon_x3_randomize, ascon_x3_permute, ascon_x3_copy_from_x1, ascon_x3_copy_to_x1,
      {0, 0, ascon_x3_copy_from_x2, ascon_x3_copy_from_x3,
#if MS >= 4
       ascon_x3_copy_from_x4
#else
       0
#endif
      } },
#endif
#if MS >= 4
    { OPS_COMMON(4),
      {0, 0, ascon_masked_word_x4_from_x2, ascon_masked_word_x4_from_x3, 0},
      ascon_x4_randomize, ascon_x4_permute, ascon_x4_copy_from_x1, ascon_x4_copy_to_x1,
      {0, 0, ascon_x4_copy_from_x2, ascon_x4_copy_from_x3, ascon_x4_copy_from_x4} },
#endif
};
#define NOPS (sizeof(OPS) / sizeof(OPS[0]))

static const ops_t *ops_for(int n)
{
    for (size_t i = 0; i < NOPS; ++i) if (OPS[i].n == n) return &OPS[i];
    return 0;
}

/* "this share did not change": on the 32-bit backend each half is drawn separately */
static int share_same(const ascon_masked_word_t *x, const ascon_masked_word_t *y, int s)
{
#if defined(ASCON_MASKED_WORD_BACKEND_C32)
    return x->W[2 * s] == y->W[2 * s] || x->W[2 * s + 1] == y->W[2 * s + 1];
#else
    return x->S[s] == y->S[s];
#endif
}

/* a word that uses n shares does not define the remaining slots: fill them with garbage so that an operation
 * that wrongly reads them (e.g. a conversion assuming they are zero) computes a wrong value */
static void poison_unused(ascon_masked_word_t *w, int n)
{
    for (int s = n; s < MS; ++s) w->S[s] = 0xEEEEEEEE00000000ULL | rng_below(R, 0xffffffffu);
}

static ascon_masked_word_t *walloc(void) { return (ascon_masked_word_t *)galloc(sizeof(ascon_masked_word_t), (int)rng_below(R, 2)); }

static void chk(const ops_t *o, const char *op, const ascon_masked_word_t *w, const uint8_t exp[8], const char *ctx)
{
    uint8_t got[8];
    char key[64];
    o->store(got, w);
    snprintf(key, sizeof(key), "word:x%d:%s", o->n, op);
    vf_eq("C10", key, "unmasked value of the word", got, exp, 8, "\"tape\":\"%s\",%s", tape_name(tape_mode), ctx);
    vf_out(got, 8);
    vf_count("word_ops", 1);
}

static void case_words(uint64_t idx)
{
    const ops_t *o = &OPS[idx % NOPS];
    ascon_masked_word_t *w = walloc(), *w2 = walloc();
    uint8_t a[8], b[8], exp[8], zero[8] = {0};
    char ctx[200];
    int tmode = (int)rng_below(R, TAPE_NMODES);
    tape_set(tmode, rng_u64(R));
    fill_pattern(R, a, 8, pick_pattern(R));
    fill_pattern(R, b, 8, pick_pattern(R));
    snprintf(ctx, sizeof(ctx), "\"a\":\"%s\",\"b\":\"%s\"", vf_h(a, 8), vf_h(b, 8));
    vf_progress("case=%llu words x%d tape=%s", (unsigned long long)idx, o->n, tape_name(tmode));
    vf_distinct("words|x%d|tape-%s", o->n, tape_name(tmode));
    memset(w, 0xEE, sizeof(*w)); memset(w2, 0xEE, sizeof(*w2));

    o->load(w, a, &trng); chk(o, "load", w, a, ctx);
    o->zero(w, &trng); chk(o, "zero", w, zero, ctx);
    o->load_32(w, a, b, &trng); memcpy(exp, a, 4); memcpy(exp + 4, b, 4); chk(o, "load_32", w, exp, ctx);
    for (unsigned size = 1; size <= 7; ++size) {
        uint8_t *src = (uint8_t *)galloc(size, 1), *dst = (uint8_t *)galloc(size, (int)(size & 1));
        char key[64];
        memcpy(src, a, size);
        o->load_partial(w, src, size, &trng);
        memset(exp, 0, 8); memcpy(exp, a, size);
        chk(o, "load_partial", w, exp, ctx);
        o->load(w, a, &trng); o->load(w2, b, &trng);
        o->replace(w, w2, size);
        memcpy(exp, a, 8); memcpy(exp, b, size);
        chk(o, "replace", w, exp, ctx);
        chk(o, "replace-src-unchanged", w2, b, ctx);
        o->load(w, a, &trng);
        o->store_partial(dst, size, w);
        snprintf(key, sizeof(key), "word:x%d:store_partial", o->n);
        vf_eq("C10", key, "store_partial output", dst, a, size, "\"size\":%u,%s", size, ctx);
        vf_out(dst, size);
        gfree(src); gfree(dst);
    }
    o->load(w, a, &trng); o->load(w2, b, &trng);
    poison_unused(w2, o->n);
    o->xor_(w, w2);
    for (int i = 0; i < 8; ++i) exp[i] = a[i] ^ b[i];
    chk(o, "xor", w, exp, ctx); chk(o, "xor-src-unchanged", w2, b, ctx);
    /* pad / separator act on the first share only */
    for (unsigned off = 0; off < 8; ++off) {
        o->load(w, a, &trng);
        ascon_masked_word_pad(w, off);
        memcpy(exp, a, 8); exp[off] ^= 0x80;
        chk(o, "pad", w, exp, ctx);
    }
    o->load(w, a, &trng); ascon_masked_word_separator(w); memcpy(exp, a, 8); exp[7] ^= 1; chk(o, "separator", w, exp, ctx);
    /* conversions between share counts, separate and in place */
    for (int m = 2; m <= MS; ++m) {
        const ops_t *om = ops_for(m);
        char opn[32];
        if (m == o->n || !o->from[m]) continue;
        memset(w, 0xEE, sizeof(*w));
        om->load(w2, b, &trng);
        poison_unused(w2, m);
        o->from[m](w, w2, &trng);
        snprintf(opn, sizeof(opn), "from_x%d", m); chk(o, opn, w, b, ctx);
        om->load(w2, a, &trng);
        poison_unused(w2, m);
        o->from[m](w2, w2, &trng);
        snprintf(opn, sizeof(opn), "from_x%d-inplace", m); chk(o, opn, w2, a, ctx);
    }
    /* randomize: value preserved; under pairwise-distinct non-zero randomness every share changes */
    for (int inplace = 0; inplace < 2; ++inplace) {
        ascon_masked_word_t before;
        char key[64];
        tape_set(inplace ? tmode : TAPE_DISTINCT, rng_u64(R));
        o->load(w2, a, &trng);
        tape_set(TAPE_DISTINCT, rng_u64(R));
        memcpy(&before, w2, sizeof(before));
        if (inplace) o->randomize(w2, w2, &trng); else { memset(w, 0xEE, sizeof(*w)); o->randomize(w, w2, &trng); }
        chk(o, inplace ? "randomize-inplace" : "randomize", inplace ? w2 : w, a, ctx);
        for (int s = 0; s < o->n; ++s) {
            if (share_same(inplace ? w2 : w, &before, s)) {
                snprintf(key, sizeof(key), "word:x%d:randomize-share-unchanged", o->n);
                vf_violation("C10", key, "\"share\":%d,\"inplace\":%d,%s", s, inplace, ctx);
            }
        }
        tape_set(tmode, rng_u64(R));
    }
    gfree(w); gfree(w2);
}

/* ------------------------------------------------------------ masked permutation and state conversions */
static void state_value(const ops_t *o, const ascon_masked_state_t *ms, uint8_t out[40])
{
    ascon_state_t x1;
    o->copy_to_x1(&x1, ms);       /* initialises (acquires) the destination itself */
    ascon_extract_bytes(&x1, out, 0, 40);
    ascon_free(&x1);
}

static void case_perm(uint64_t idx)
{
    const ops_t *o = &OPS[idx % NOPS];
    ascon_masked_state_t *ms = (ascon_masked_state_t *)galloc(sizeof(*ms), (int)(idx & 1)), *ms2 = (ascon_masked_state_t *)galloc(sizeof(*ms2), 1);
    ascon_state_t x1;
    uint8_t s0[40], exp[40], got[40];
    uint64_t *preserve = (uint64_t *)galloc(sizeof(uint64_t) * (size_t)(o->n - 1), 1);
    unsigned fr = rng_below(R, 12);
    int tmode = (int)rng_below(R, TAPE_NMODES);
    char key[64], ctx[220];
    tape_set(tmode, rng_u64(R));
    fill_pattern(R, s0, 40, pick_pattern(R));
    vf_progress("case=%llu permute x%d first_round=%u tape=%s", (unsigned long long)idx, o->n, fr, tape_name(tmode));
    vf_distinct("perm|x%d|round%u", o->n, fr);
    vf_distinct("perm|x%d|tape-%s", o->n, tape_name(tmode));
    snprintf(ctx, sizeof(ctx), "\"first_round\":%u,\"tape\":\"%s\",\"state\":\"%s\"", fr, tape_name(tmode), vf_h(s0, 40));
    ascon_init(&x1);
    ascon_overwrite_bytes(&x1, s0, 0, 40);
    ascon_masked_state_init(ms);
    o->copy_from_x1(ms, &x1, &trng);
    ascon_free(&x1);
    state_value(o, ms, got);
    snprintf(key, sizeof(key), "state:x%d:copy_from_x1", o->n);
    vf_eq("C10", key, "value after copy_from_x1/copy_to_x1", got, s0, 40, "%s", ctx);
    for (int i = 0; i < o->n - 1; ++i) preserve[i] = ascon_trng_generate_64(&trng);
    o->permute(ms, (uint8_t)fr, preserve);
    memcpy(exp, s0, 40); ref_permute(exp, 12 - fr);
    state_value(o, ms, got);
    vf_out(got, 40);
    snprintf(key, sizeof(key), "state:x%d:permute:round%u", o->n, fr);
    vf_eq("C10", key, "masked permutation vs reference", got, exp, 40, "%s", ctx);
    /* second permutation chained with the returned preserve words */
    {
        unsigned fr2 = rng_below(R, 12);
        o->permute(ms, (uint8_t)fr2, preserve);
        ref_permute(exp, 12 - fr2);
        state_value(o, ms, got);
        snprintf(key, sizeof(key), "state:x%d:permute-chained", o->n);
        vf_eq("C10", key, "second masked permutation (carried preserve words)", got, exp, 40, "\"first_round2\":%u,%s", fr2, ctx);
        vf_out(got, 40);
    }
    /* conversions to the other share counts keep the value */
    for (int m = 2; m <= MS; ++m) {
        const ops_t *om = ops_for(m);
        if (!om || !om->copy_from[o->n]) continue;
        ascon_masked_state_init(ms2);
        for (int wd = 0; wd < 5; ++wd) poison_unused(&ms->M[wd], o->n);
        om->copy_from[o->n](ms2, ms, &trng);
        state_value(om, ms2, got);
        snprintf(key, sizeof(key), "state:x%d:copy_from_x%d", m, o->n);
        vf_eq("C10", key, "value after share-count conversion", got, exp, 40, "%s", ctx);
        ascon_masked_state_free(ms2);
    }
    /* state randomize: value kept; with distinct non-zero randomness every share word changes */
    {
        ascon_masked_state_t before;
        tape_set(TAPE_DISTINCT, rng_u64(R));
        memcpy(&before, ms, sizeof(before));
        o->st_randomize(ms, &trng);
        state_value(o, ms, got);
        snprintf(key, sizeof(key), "state:x%d:randomize-value", o->n);
        vf_eq("C10", key, "value after state randomize", got, exp, 40, "%s", ctx);
        for (int wd = 0; wd < 5; ++wd)
            for (int s = 0; s < o->n; ++s)
                if (share_same(&ms->M[wd], &before.M[wd], s)) {
                    snprintf(key, sizeof(key), "state:x%d:randomize-share-unchanged", o->n);
                    vf_violation("C10", key, "\"word\":%d,\"share\":%d,%s", wd, s, ctx);
                }
    }
    vf_count("masked_permutations", 2);
    if (idx % 1999 == 4) vf_sample("\"kind\":\"masked-permute\",\"shares\":%d,%s", o->n, ctx);
    ascon_masked_state_free(ms);
    gfree(ms); gfree(ms2); gfree(preserve);
}

/* ------------------------------------------------------------ masked keys */
static void case_keys(uint64_t idx)
{
    ascon_masked_key_128_t *k128 = (ascon_masked_key_128_t *)galloc(sizeof(*k128), (int)(idx & 1));
    ascon_masked_key_160_t *k160 = (ascon_masked_key_160_t *)galloc(sizeof(*k160), 1);
    uint8_t key[20], *out = (uint8_t *)galloc(20, 1), *out16 = (uint8_t *)galloc(16, 0);
    int tmode = (int)rng_below(R, TAPE_NMODES);
    char ctx[160];
    tape_set(tmode, rng_u64(R));
    fill_pattern(R, key, 20, pick_pattern(R));
    snprintf(ctx, sizeof(ctx), "\"tape\":\"%s\",\"key\":\"%s\",\"key_shares\":%d", tape_name(tmode), vf_h(key, 20), KS);
    vf_progress("case=%llu keys tape=%s", (unsigned long long)idx, tape_name(tmode));
    vf_distinct("keys|tape-%s|shares%d", tape_name(tmode), KS);
    ascon_masked_key_128_init(k128, key);
    ascon_masked_key_128_extract(k128, out16);
    vf_eq("C10", "key128:extract", "mask then extract", out16, key, 16, "%s", ctx);
    ascon_masked_key_160_init(k160, key);
    ascon_masked_key_160_extract(k160, out);
    vf_eq("C10", "key160:extract", "mask then extract", out, key, 20, "%s", ctx);
    vf_out(out16, 16); vf_out(out, 20);
    for (int round = 0; round < 2; ++round) {
        ascon_masked_key_128_t b128;
        ascon_masked_key_160_t b160;
        tape_set(round ? tmode : TAPE_DISTINCT, rng_u64(R));
        memcpy(&b128, k128, sizeof(b128)); memcpy(&b160, k160, sizeof(b160));
        ascon_masked_key_128_randomize(k128);
        ascon_masked_key_160_randomize(k160);
        ascon_masked_key_128_extract(k128, out16);
        ascon_masked_key_160_extract(k160, out);
        vf_eq("C10", "key128:randomize-value", "value after randomize", out16, key, 16, "%s", ctx);
        vf_eq("C10", "key160:randomize-value", "value after randomize", out, key, 20, "%s", ctx);
        if (round == 0) {
            for (int w = 0; w < 2; ++w)
                for (int s = 0; s < KS; ++s)
                    if (share_same((const ascon_masked_word_t *)&k128->k[w], (const ascon_masked_word_t *)&b128.k[w], s))
                        vf_violation("C10", "key128:randomize-share-unchanged", "\"word\":%d,\"share\":%d,%s", w, s, ctx);
            for (int w = 0; w < 6; ++w)
                for (int s = 0; s < KS; ++s)
                    if (share_same((const ascon_masked_word_t *)&k160->k[w], (const ascon_masked_word_t *)&b160.k[w], s))
                        vf_violation("C10", "key160:randomize-share-unchanged", "\"word\":%d,\"share\":%d,%s", w, s, ctx);
        }
    }
    ascon_masked_key_128_free(k128); ascon_masked_key_160_free(k160);
    vf_count("key_cases", 1);
    gfree(k128); gfree(k160); gfree(out); gfree(out16);
}

int main(int argc, char **argv)
{
    vf_args_t a;
    uint64_t idx, n;
    rng_t r;
    vf_prop = "C10";
    vf_parse_args(argc, argv, &a);
    n = (uint64_t)(a.cases >= 0 ? a.cases : 12000);
    R = &r;
    ascon_trng_init(&trng);
    for (idx = 0; idx < n; ++idx) {
        if (!vf_mine(&a, idx)) continue;
        rng_seed(&r, a.seed ^ 0xa5c, idx);
        vf_case_begin(idx);
        switch ((idx / NOPS) % 4) {
        case 0: case_words(idx); break;
        case 3: case_keys(idx); break;
        default: case_perm(idx); break;
        }
        vf_case_end();
        vf_count("cases", 1);
    }
    gcheck_all("end");
    vf_finish();
    return 0;
}
