/* C++ classes: C17 (every keying path and overload equals the C API), C14 (nonce
 * advance through the cipher objects), and the C++ entry points of C01/C02/C06.
 * Each session: construct + key the object through one of the keying paths, set the
 * nonce through set_nonce(len 0..40) or set_counter, then 1..6 operations mixing
 * encrypt / good decrypt / bad decrypt through the pointer and byte_array overloads;
 * every result is compared with the C function AND the reference under nonce N+i.
 */
#include "common.h"
#include "ascon_ref.h"
#include "trng_tape.h"
#include <ascon/aead.h>
#include <ascon/aead-masked.h>
#include <ascon/siv.h>
#include <ascon/isap.h>
#include <ascon/hash.h>
#include <ascon/xof.h>
#include <string>
#include <vector>
#include <new>

static rng_t *R;

enum { KIND_AEAD, KIND_MASKED, KIND_SIV, KIND_ISAP };

/* C function with the plain-key signature for every class (masked / isap via wrappers) */
typedef void (*c_enc)(unsigned char *, size_t *, const unsigned char *, size_t, const unsigned char *, size_t, const unsigned char *, const unsigned char *);
typedef int (*c_dec)(unsigned char *, size_t *, const unsigned char *, size_t, const unsigned char *, size_t, const unsigned char *, const unsigned char *);

#define MASKW(P, KT, KP) \
static void cm_enc_##P(unsigned char *c, size_t *cl, const unsigned char *m, size_t ml, const unsigned char *ad, size_t al, const unsigned char *n, const unsigned char *k) \
{ KT mk; KP##_init(&mk, k); P##_masked_aead_encrypt(c, cl, m, ml, ad, al, n, &mk); KP##_free(&mk); } \
static int cm_dec_##P(unsigned char *m, size_t *ml, const unsigned char *c, size_t cl, const unsigned char *ad, size_t al, const unsigned char *n, const unsigned char *k) \
{ KT mk; int r; KP##_init(&mk, k); r = P##_masked_aead_decrypt(m, ml, c, cl, ad, al, n, &mk); KP##_free(&mk); return r; }
MASKW(ascon128, ascon_masked_key_128_t, ascon_masked_key_128)
MASKW(ascon128a, ascon_masked_key_128_t, ascon_masked_key_128)
MASKW(ascon80pq, ascon_masked_key_160_t, ascon_masked_key_160)
#define ISAPW(P, KT) \
static void ci_enc_##P(unsigned char *c, size_t *cl, const unsigned char *m, size_t ml, const unsigned char *ad, size_t al, const unsigned char *n, const unsigned char *k) \
{ KT pk; P##_isap_aead_init(&pk, k); P##_isap_aead_encrypt(c, cl, m, ml, ad, al, n, &pk); P##_isap_aead_free(&pk); } \
static int ci_dec_##P(unsigned char *m, size_t *ml, const unsigned char *c, size_t cl, const unsigned char *ad, size_t al, const unsigned char *n, const unsigned char *k) \
{ KT pk; int r; P##_isap_aead_init(&pk, k); r = P##_isap_aead_decrypt(m, ml, c, cl, ad, al, n, &pk); P##_isap_aead_free(&pk); return r; }
ISAPW(ascon128, ascon128_isap_aead_key_t)
ISAPW(ascon128a, ascon128a_isap_aead_key_t)
ISAPW(ascon80pq, ascon80pq_isap_aead_key_t)

struct cls_t { const char *name; int kind, v; unsigned klen; c_enc enc; c_dec dec; const char *refprop; };

template <class T> struct traits;
#define TRAITS(T, NAME, KIND, V, KLEN, ENC, DEC, RP) \
template <> struct traits<ascon::T> { static const cls_t &info() { static const cls_t c = {NAME, KIND, V, KLEN, ENC, DEC, RP}; return c; } };
TRAITS(aead128, "aead128", KIND_AEAD, REF_128, 16, ascon128_aead_encrypt, ascon128_aead_decrypt, "C01")
TRAITS(aead128a, "aead128a", KIND_AEAD, REF_128A, 16, ascon128a_aead_encrypt, ascon128a_aead_decrypt, "C01")
TRAITS(aead80pq, "aead80pq", KIND_AEAD, REF_80PQ, 20, ascon80pq_aead_encrypt, ascon80pq_aead_decrypt, "C01")
TRAITS(aead128_masked, "aead128_masked", KIND_MASKED, REF_128, 16, cm_enc_ascon128, cm_dec_ascon128, "C01")
TRAITS(aead128a_masked, "aead128a_masked", KIND_MASKED, REF_128A, 16, cm_enc_ascon128a, cm_dec_ascon128a, "C01")
TRAITS(aead80pq_masked, "aead80pq_masked", KIND_MASKED, REF_80PQ, 20, cm_enc_ascon80pq, cm_dec_ascon80pq, "C01")
TRAITS(siv128, "siv128", KIND_SIV, REF_128, 16, ascon128_siv_encrypt, ascon128_siv_decrypt, "C06")
TRAITS(siv128a, "siv128a", KIND_SIV, REF_128A, 16, ascon128a_siv_encrypt, ascon128a_siv_decrypt, "C06")
TRAITS(siv80pq, "siv80pq", KIND_SIV, REF_80PQ, 20, ascon80pq_siv_encrypt, ascon80pq_siv_decrypt, "C06")
TRAITS(isap128, "isap128", KIND_ISAP, 0, 16, ci_enc_ascon128, ci_dec_ascon128, "C06")
TRAITS(isap128a, "isap128a", KIND_ISAP, 1, 16, ci_enc_ascon128a, ci_dec_ascon128a, "C06")
TRAITS(isap80pq, "isap80pq", KIND_ISAP, 2, 20, ci_enc_ascon80pq, ci_dec_ascon80pq, "C06")

static void ref_enc(const cls_t &c, uint8_t *out, const uint8_t *m, size_t ml, const uint8_t *ad, size_t al, const uint8_t *n, const uint8_t *k)
{
    if (c.kind == KIND_SIV) ref_siv_encrypt(c.v, out, m, ml, ad, al, n, k);
    else if (c.kind == KIND_ISAP) ref_isap_encrypt(c.v, out, m, ml, ad, al, n, k);
    else ref_aead_encrypt(c.v, out, m, ml, ad, al, n, k);
}

/* keying paths */
enum { KP_DEFAULT, KP_CTOR, KP_SETKEY, KP_SETKEY_ZERO_PTR, KP_SETKEY_ZERO_NULL, KP_REKEY, KP_SAVED_SETKEY, KP_SAVED_CTOR, KP_N };
static const char *kp_name[] = {"default-ctor", "key-ctor", "set_key-full", "set_key(ptr,0)", "set_key(NULL,0)", "ctor-then-set_key", "set_key(saved,80)", "ctor(saved,80)"};

template <class T> struct maker {
    static T *ctor_key(const uint8_t *k, size_t) { return new T(k); }
};
#define ISAP_MAKER(T) template <> struct maker<ascon::T> { static ascon::T *ctor_key(const uint8_t *k, size_t len) { return new ascon::T(k, len); } };
ISAP_MAKER(isap128) ISAP_MAKER(isap128a) ISAP_MAKER(isap80pq)

template <class T> static void save_if_isap(T *, uint8_t *) {}
static void save_if_isap(ascon::isap128 *o, uint8_t *s) { o->save_key(s); }
static void save_if_isap(ascon::isap128a *o, uint8_t *s) { o->save_key(s); }
static void save_if_isap(ascon::isap80pq *o, uint8_t *s) { o->save_key(s); }
template <class T> static void randomize_if_masked(T *) {}
static void randomize_if_masked(ascon::aead_masked *o) { if (rng_below(R, 3) == 0) o->randomize_key(); }

static void viol(const char *prop, const cls_t &c, const char *what, const char *kp, const char *fmt, ...) __attribute__((format(printf, 5, 6)));
static void viol(const char *prop, const cls_t &c, const char *what, const char *kp, const char *fmt, ...)
{
    char key[160], ctx[900];
    va_list ap;
    va_start(ap, fmt); vsnprintf(ctx, sizeof(ctx), fmt, ap); va_end(ap);
    snprintf(key, sizeof(key), "cpp:%s:%s:%s", c.name, kp, what);
    vf_violation(prop, key, "\"class\":\"%s\",\"keying\":\"%s\",%s", c.name, kp, ctx);
}

template <class T> static T *build_keyed(int kp, const cls_t &c, const uint8_t *key, const uint8_t *other, bool *ok)
{
    uint8_t saved[80];
    T *o;
    *ok = true;
    switch (kp) {
    case KP_DEFAULT: o = new T(); break;
    case KP_CTOR: o = maker<T>::ctor_key(key, c.klen); break;
    case KP_SETKEY: o = new T(); *ok = o->set_key(key, c.klen); break;
    case KP_SETKEY_ZERO_PTR: o = maker<T>::ctor_key(other, c.klen); *ok = o->set_key(key, 0); break;
    case KP_SETKEY_ZERO_NULL: o = maker<T>::ctor_key(other, c.klen); *ok = o->set_key(0, 0); break;
    case KP_REKEY: o = maker<T>::ctor_key(other, c.klen); *ok = o->set_key(key, c.klen); break;
    case KP_SAVED_SETKEY: {
        T *src = maker<T>::ctor_key(key, c.klen); save_if_isap(src, saved); delete src;
        o = new T(); *ok = o->set_key(saved, 80); break; }
    default: {
        T *src = new T(); src->set_key(key, c.klen); save_if_isap(src, saved); delete src;
        o = maker<T>::ctor_key(saved, 80); break; }
    }
    return o;
}

/* set_key on an object that already carries a nonce or is in the middle of a session: "set_key leaves the nonce as it is"
 * (aead.h), so the next packet must be the C function under the NEW key and the nonce the object had reached.  A control
 * object that is keyed with the final key from the start decides whether a mismatch is set_key's doing (C17) or a nonce
 * problem that the control shows as well (C14 territory, not reported here). */
template <class T> static void rekey_probe(const cls_t &c)
{
    uint8_t k1[20], k2[20], n0[16], ni[16], m[40], ad[9];
    size_t mlen = 1 + rng_below(R, 39), adlen = rng_below(R, 10), cl = 0;
    int how = (int)rng_below(R, 3);            /* 0: nonce, then the first set_key; 1: key, nonce, re-key; 2: key, nonce, one packet, re-key */
    int zero_len = c.kind != KIND_ISAP && rng_below(R, 4) == 0;   /* re-key with set_key(ptr, 0) = all-zero key */
    rng_bytes(R, k1, 20); rng_bytes(R, k2, 20); rng_bytes(R, n0, 16); rng_bytes(R, m, sizeof(m)); rng_bytes(R, ad, sizeof(ad));
    for (int i = 4; i < 8; ++i) if (!n0[i]) n0[i] = 0x3c;
    if (zero_len) memset(k2, 0, 20);
    uint8_t got[2][56], exp[56], first[56];
    for (int ctl = 0; ctl < 2; ++ctl) {         /* ctl == 1: control object keyed with k2 from the start */
        T *o = new T();
        unsigned adv = 0;
        if (ctl) { if (zero_len) o->set_key(k2, 0); else o->set_key(k2, c.klen); o->set_nonce(n0, 16); if (how == 2) { o->encrypt(first, m, mlen, ad, adlen); adv = 1; } }
        else {
            if (how == 0) o->set_nonce(n0, 16);
            else { o->set_key(k1, c.klen); o->set_nonce(n0, 16); if (how == 2) { o->encrypt(first, m, mlen, ad, adlen); adv = 1; } }
            if (zero_len) o->set_key(k2, 0); else o->set_key(k2, c.klen);
        }
        o->encrypt(got[ctl], m, mlen, ad, adlen);
        if (!ctl) { memcpy(ni, n0, 16); ref_nonce_add(ni, adv); }
        delete o;
    }
    c.enc(exp, &cl, m, mlen, ad, adlen, ni, k2);
    vf_count("rekey_probes", 1);
    vf_distinct("cpp|%s|rekey-probe-%d%s", c.name, how, zero_len ? "-zero" : "");
    if (memcmp(got[0], exp, mlen + 16) != 0 && memcmp(got[1], exp, mlen + 16) == 0)
        viol("C17", c, "set_key-on-a-live-object", how == 0 ? "nonce-then-set_key" : how == 1 ? "key-nonce-rekey" : "rekey-mid-session",
             "\"mlen\":%zu,\"adlen\":%zu,\"zero_length_key\":%d,\"n0\":\"%s\",\"got\":\"%s\",\"exp\":\"%s\"", mlen, adlen, zero_len, vf_h(n0, 16), vf_h(got[0], mlen + 16), vf_h(exp, mlen + 16));
}

template <class T> static void session(uint64_t idx)
{
    const cls_t &c = traits<T>::info();
    uint8_t key[20], eff[20], other[20], saved[80], nbuf[40], n0[16], ni[16];
    int kp = (int)rng_below(R, c.kind == KIND_ISAP ? KP_N : KP_SAVED_SETKEY);
    T *o = 0;
    bool ok = true;
    unsigned nops = 1 + rng_below(R, 6), advance = 0;
    bool key_ok = false;   /* an operation under the initial nonce matched: later mismatches are about the nonce */
    bool renonced = false; (void)renonced;
    size_t nlen;
    fill_pattern(R, key, 20, pick_pattern(R));
    for (int i = 16; i < 20; ++i) if (key[i] == 0) key[i] = (uint8_t)(0x11 * (i - 14)); /* the last four 80pq key bytes matter */
    rng_bytes(R, other, 20);
    if (c.kind == KIND_MASKED) tape_set((int)rng_below(R, TAPE_NMODES), rng_u64(R));
    vf_progress("case=%llu cpp %s keying=%s ops=%u", (unsigned long long)idx, c.name, kp_name[kp], nops);
    memcpy(eff, key, 20);
    o = build_keyed<T>(kp, c, key, other, &ok);
    if (kp == KP_DEFAULT || kp == KP_SETKEY_ZERO_PTR || kp == KP_SETKEY_ZERO_NULL) memset(eff, 0, 20);
    if (!ok) viol("C17", c, "set_key-returned-false", kp_name[kp], "\"klen\":%u", c.klen);
    if (o->key_size() != c.klen || o->tag_size() != 16 || o->nonce_size() != 16)
        viol("C17", c, "sizes", kp_name[kp], "\"key_size\":%zu,\"tag_size\":%zu,\"nonce_size\":%zu", o->key_size(), o->tag_size(), o->nonce_size());
    /* wrong key length: recorded, never a verdict */
    if (rng_below(R, 16) == 0) { T *w = new T(); vf_count(w->set_key(key, c.klen - 1) ? "wrong_keylen_accepted" : "wrong_keylen_rejected", 1); delete w; }

    /* nonce: set_nonce(len 0..40), set_counter, or the constructor's all-zero nonce */
    memset(n0, 0, 16);
    bool nonce_explicit = true;
    switch (rng_below(R, 4)) {
    case 0: nonce_explicit = false; break;
    case 1: { uint64_t ctr = rng_below(R, 3) ? rng_u64(R) : ~(uint64_t)0 - rng_below(R, 4);
              o->set_counter(ctr); for (int i = 0; i < 8; ++i) n0[8 + i] = (uint8_t)(ctr >> (56 - 8 * i));
              vf_distinct("cpp|%s|set_counter", c.name); break; }
    default: {
        nlen = rng_below(R, 41);
        rng_bytes(R, nbuf, 40);
        if (rng_below(R, 3) == 0 && nlen) { unsigned k = rng_below(R, (uint32_t)(nlen > 16 ? 16 : nlen) + 1); memset(nbuf + (nlen > 16 ? 16 : nlen) - k, 0xff, k); } /* carry chains */
        {   uint8_t *np = (uint8_t *)galloc(nlen, 1); memcpy(np, nbuf, nlen);
            o->set_nonce(nlen ? np : (rng_below(R, 2) ? np : 0), nlen); gfree(np); }
        if (nlen >= 16) memcpy(n0, nbuf, 16); else memcpy(n0 + 16 - nlen, nbuf, nlen);
        vf_distinct("cpp|%s|set_nonce-len%s", c.name, nlen == 0 ? "0" : nlen < 16 ? "<16" : nlen == 16 ? "16" : ">16");
        break; }
    }
    vf_distinct("cpp|%s|%s", c.name, kp_name[kp]);

    for (unsigned op = 0; op < nops; ++op) {
        size_t adlen = rng_below(R, 3) == 0 ? 0 : pick_len(R, 8, 80), mlen = pick_len(R, 8, 150), cl = 0;
        uint8_t *ad = (uint8_t *)galloc(adlen, 1), *m = (uint8_t *)galloc(mlen, 1), *exp = (uint8_t *)malloc(mlen + 16), *expc = (uint8_t *)malloc(mlen + 16);
        int mode = (int)rng_below(R, 3), use_ba = (int)rng_below(R, 2);
        char ctx[500];
        rng_bytes(R, ad, adlen); rng_bytes(R, m, mlen);
        memcpy(ni, n0, 16); ref_nonce_add(ni, advance);
        ref_enc(c, exp, m, mlen, ad, adlen, ni, eff);
        c.enc(expc, &cl, m, mlen, ad, adlen, ni, eff);
        snprintf(ctx, sizeof(ctx), "\"op\":%u,\"mode\":%d,\"byte_array\":%d,\"adlen\":%zu,\"mlen\":%zu,\"n0\":\"%s\",\"advance\":%u,\"key\":\"%s\"", op, mode, use_ba, adlen, mlen, vf_h(n0, 16), advance, vf_h(key, c.klen));
        /* is the keying path or the nonce setter at fault?  the same keying path with the constructor's all-zero nonce decides */
        auto setter_at_fault = [&]() -> bool {
            bool ok2; T *o2 = build_keyed<T>(kp, c, key, other, &ok2);
            uint8_t zn[16] = {0}; size_t l2 = 0;
            uint8_t *cc = (uint8_t *)malloc(mlen + 16), *ce = (uint8_t *)malloc(mlen + 16);
            o2->encrypt(cc, m, mlen, ad, adlen);
            c.enc(ce, &l2, m, mlen, ad, adlen, zn, eff);
            bool same = !memcmp(cc, ce, mlen + 16);
            free(cc); free(ce); delete o2;
            return same;          /* key path is fine, so set_nonce / set_counter stored a wrong nonce */
        };
        if (rng_below(R, 8) == 0) randomize_if_masked(o);
        if (op > 0 && rng_below(R, 6) == 0) {
            /* the nonce is set again on a live object (it is non-zero by now): short nonces are left-padded with zeros - length 0
               means the all-zero nonce - and the packet counter restarts from the new value */
            size_t nl2 = rng_below(R, 3) == 0 ? 0 : rng_below(R, 41);
            uint8_t nb2[40];
            rng_bytes(R, nb2, 40);
            memset(n0, 0, 16);
            if (rng_below(R, 4) == 0) { uint64_t ctr = rng_u64(R); o->set_counter(ctr); for (int i = 0; i < 8; ++i) n0[8 + i] = (uint8_t)(ctr >> (56 - 8 * i)); }
            else { uint8_t *np = (uint8_t *)galloc(nl2, 1); memcpy(np, nb2, nl2); o->set_nonce(np, nl2); gfree(np); if (nl2 >= 16) memcpy(n0, nb2, 16); else memcpy(n0 + 16 - nl2, nb2, nl2); }
            advance = 0; nonce_explicit = true; renonced = true;
            memcpy(ni, n0, 16);
            ref_enc(c, exp, m, mlen, ad, adlen, ni, eff);
            c.enc(expc, &cl, m, mlen, ad, adlen, ni, eff);
            vf_distinct("cpp|%s|re-nonce-len%s", c.name, nl2 == 0 ? "0" : nl2 < 16 ? "<16" : ">=16");
        }
        if (mode == 0) {
            std::vector<unsigned char> got;
            if (use_ba) {
                ascon::byte_array bm(m, m + mlen), bad(ad, ad + adlen), bc(7, 0xEE);
                if (adlen == 0 && rng_below(R, 2)) o->encrypt(bc, bm); else o->encrypt(bc, bm, bad);
                got.assign(bc.begin(), bc.end());
            } else {
                uint8_t *cb = (uint8_t *)galloc(mlen + 16, 1);
                int r = (adlen == 0 && rng_below(R, 2)) ? o->encrypt(cb, m, mlen) : o->encrypt(cb, m, mlen, ad, adlen);
                if (r != (int)(mlen + 16)) viol("C17", c, "encrypt-return", kp_name[kp], "\"ret\":%d,%s", r, ctx);
                got.assign(cb, cb + mlen + 16);
                gfree(cb);
            }
            vf_out(got.data(), got.size());
            if (got.size() != mlen + 16) viol("C17", c, "encrypt-size", kp_name[kp], "\"size\":%zu,%s", got.size(), ctx);
            else {
                if (memcmp(got.data(), expc, mlen + 16) == 0) key_ok = true;
                else {
                    /* distinguish: wrong key (keying path, C17) from wrong nonce (C14) by trying the neighbours */
                    uint8_t alt[16]; bool nonce_issue = false;
                    uint8_t *t = (uint8_t *)malloc(mlen + 16);
                    for (int d = -2; d <= 2 && !nonce_issue; ++d) {
                        size_t l2; memcpy(alt, n0, 16);
                        if (d >= 0) ref_nonce_add(alt, advance + (unsigned)d); else { ref_nonce_add(alt, advance); for (int q = 0; q < -d; ++q) { int z = 15; while (z >= 0 && alt[z]-- == 0) --z; } }
                        if (d == 0) continue;
                        c.enc(t, &l2, m, mlen, ad, adlen, alt, eff);
                        if (!memcmp(t, got.data(), mlen + 16)) nonce_issue = true;
                    }
                    free(t);
                    if (!nonce_issue && advance == 0 && nonce_explicit && setter_at_fault()) nonce_issue = true;
                    viol(nonce_issue || (advance > 0 && key_ok) ? "C14" : "C17", c, nonce_issue ? "wrong-nonce" : "encrypt-differs-from-C", kp_name[kp], "\"got\":\"%s\",\"exp\":\"%s\",%s", vf_h(got.data(), mlen + 16), vf_h(expc, mlen + 16), ctx);
                    if (advance == 0 && !nonce_issue && memcmp(expc, exp, mlen + 16) == 0) viol(c.refprop, c, "encrypt-differs-from-spec", kp_name[kp], "%s", ctx);
                }
            }
            ++advance;
        } else {
            uint8_t *cin = (uint8_t *)galloc(mlen + 16, 1);
            memcpy(cin, expc, mlen + 16);
            if (mode == 2) cin[rng_below(R, (uint32_t)mlen + 16)] ^= (uint8_t)(1u << rng_below(R, 8));
            if (use_ba) {
                ascon::byte_array bc(cin, cin + mlen + 16), bad(ad, ad + adlen), bm(5, 0xEE);
                bool r = (adlen == 0 && rng_below(R, 2)) ? o->decrypt(bm, bc) : o->decrypt(bm, bc, bad);
                vf_out_int(r);
                if (r && mode == 1) key_ok = true;
                if (r != (mode == 1)) viol(mode == 1 ? ((advance > 0 && key_ok) || (advance == 0 && nonce_explicit && setter_at_fault()) ? "C14" : "C17") : "C02", c, mode == 1 ? "valid-rejected" : "forgery-accepted", kp_name[kp], "%s", ctx);
                if (mode == 1 && r && (bm.size() != mlen || (mlen && memcmp(bm.data(), m, mlen)))) viol("C17", c, "decrypt-plaintext", kp_name[kp], "%s", ctx);
                if (mode == 2 && !r && !bm.empty()) viol("C17", c, "byte_array-not-cleared-on-failure", kp_name[kp], "\"size\":%zu,%s", bm.size(), ctx);
            } else {
                uint8_t *mb = (uint8_t *)galloc(mlen, 1);
                int r = (adlen == 0 && rng_below(R, 2)) ? o->decrypt(mb, cin, mlen + 16) : o->decrypt(mb, cin, mlen + 16, ad, adlen);
                vf_out_int(r);
                if (mode == 1 && r == (int)mlen) key_ok = true;
                if (mode == 1 && r != (int)mlen) viol((advance > 0 && key_ok) || (advance == 0 && nonce_explicit && setter_at_fault()) ? "C14" : "C17", c, "valid-rejected", kp_name[kp], "\"ret\":%d,%s", r, ctx);
                if (mode == 1 && r >= 0 && mlen && memcmp(mb, m, mlen)) viol("C17", c, "decrypt-plaintext", kp_name[kp], "%s", ctx);
                if (mode == 2 && r >= 0) viol("C02", c, "forgery-accepted", kp_name[kp], "\"ret\":%d,%s", r, ctx);
                gfree(mb);
            }
            if (mode == 1) ++advance;   /* a failed decryption must leave the nonce unchanged */
            gfree(cin);
        }
        vf_distinct("cpp|%s|op-%s-%s", c.name, mode == 0 ? "enc" : mode == 1 ? "dec" : "baddec", use_ba ? "bytearray" : "ptr");
        vf_count("cpp_ops", 1);
        gfree(ad); gfree(m); free(exp); free(expc);
    }
    if (idx % 499 == 1) vf_sample("\"class\":\"%s\",\"keying\":\"%s\",\"ops\":%u,\"n0\":\"%s\"", c.name, kp_name[kp], nops, vf_h(n0, 16));
    /* isap: save_key of the object equals the reference pre-computed key */
    if (c.kind == KIND_ISAP) {
        /* C17: what the C++ save_key returns must be what the C save_key returns for the same key (the saved format itself
           is not judged here) */
        uint8_t expk[80];
        save_if_isap(o, saved);
        if (c.v == 0) { ascon128_isap_aead_key_t pk; ascon128_isap_aead_init(&pk, eff); ascon128_isap_aead_save_key(&pk, expk); ascon128_isap_aead_free(&pk); }
        else if (c.v == 1) { ascon128a_isap_aead_key_t pk; ascon128a_isap_aead_init(&pk, eff); ascon128a_isap_aead_save_key(&pk, expk); ascon128a_isap_aead_free(&pk); }
        else { ascon80pq_isap_aead_key_t pk; ascon80pq_isap_aead_init(&pk, eff); ascon80pq_isap_aead_save_key(&pk, expk); ascon80pq_isap_aead_free(&pk); }
        if (memcmp(saved, expk, 80)) viol("C17", c, "save_key", kp_name[kp], "\"saved\":\"%s\",\"c_saved\":\"%s\"", vf_h(saved, 80), vf_h(expk, 80));
    }
    if (rng_below(R, 2)) o->clear();
    delete o;
    if (rng_below(R, 3) == 0) rekey_probe<T>(c);
}

/* ---------------------------------------------------------------- hash / xof classes */
template <class H> static void hash_case(int a, const char *name)
{
    size_t inlen = pick_len(R, 8, 600);
    std::vector<unsigned char> in(inlen + 1);
    uint8_t exp[32], got[32];
    int how = (int)rng_below(R, 6);
    fill_pattern(R, in.data(), inlen, pick_pattern(R));
    if (how == 1) for (size_t i = 0; i < inlen; ++i) if (!in[i]) in[i] = 0x5a; /* C strings cannot hold NUL; std::string can */
    if (how == 3 && inlen && rng_below(R, 2)) in[rng_below(R, (uint32_t)inlen)] = 0;
    in[inlen] = 0;
    vf_progress("case=%llu cpp %s how=%d inlen=%zu", (unsigned long long)vf_case, name, how, inlen);
    ref_hash(a, exp, in.data(), inlen);
    H h;
    size_t half = inlen ? rng_below(R, (uint32_t)inlen + 1) : 0;
    switch (how) {
    case 0: h.update(in.data(), half); h.update(in.data() + half, inlen - half); h.finalize(got); break;
    case 1: h.update(reinterpret_cast<const char *>(in.data())); h.finalize(got); break;
    case 2: { ascon::byte_array ba(in.begin(), in.begin() + inlen); h.update(ba); ascon::byte_array d = h.finalize(); if (d.size() != 32) memset(got, 0, 32); else memcpy(got, d.data(), 32); break; }
    case 3: { std::string s(reinterpret_cast<const char *>(in.data()), inlen); h.update(s); h.finalize(got); break; }
    case 4: H::digest(got, in.data(), inlen); break;
    default: { /* copy, assign, reset */
        h.update(in.data(), half);
        H h2(h), h3;
        h3.update(in.data(), inlen > 3 ? 3 : inlen);
        h3 = h2;
        h2.update(in.data() + half, inlen - half); h3.update(in.data() + half, inlen - half);
        uint8_t g2[32];
        h2.finalize(got); h3.finalize(g2);
        if (memcmp(got, g2, 32)) { char k[64]; snprintf(k, sizeof(k), "cpp:%s:assign-vs-copy", name); vf_violation("C17", k, "\"inlen\":%zu", inlen); }
        h.reset(); h.update(in.data(), inlen); h.finalize(g2);
        if (memcmp(exp, g2, 32)) { char k[64]; snprintf(k, sizeof(k), "cpp:%s:reset", name); vf_violation("C17", k, "\"inlen\":%zu", inlen); }
        break; }
    }
    { char k[64]; snprintf(k, sizeof(k), "cpp:%s:how%d", name, how); vf_eq("C17", k, "digest", got, exp, 32, "\"inlen\":%zu", inlen);
      vf_eq("C03", k, "digest through the C++ class (hash.h) vs the specification", got, exp, 32, "\"inlen\":%zu", inlen); }
    vf_out(got, 32);
    vf_distinct("cpp|%s|how%d", name, how);
}

template <class X, size_t N> static void xof_case(int a, const char *name)
{
    size_t inlen = pick_len(R, 8, 300), outlen = rng_below(R, 4) == 0 ? 32 : rng_below(R, 90), customlen = rng_below(R, 40);
    std::vector<unsigned char> in(inlen + 1), custom(customlen + 1), exp(outlen + 1), got(outlen + 1);
    char fname[48];
    size_t fl = rng_below(R, 41);
    int how = (int)rng_below(R, 6);
    int ctor = (int)rng_below(R, 3);
    uint64_t declared = N >= ((size_t)1 << 29) ? 0 : N;
    rng_bytes(R, in.data(), inlen); rng_bytes(R, custom.data(), customlen);
    if (how == 4) for (size_t i = 0; i < inlen; ++i) if (!in[i]) in[i] = 0x33;
    if (how == 5 && inlen && rng_below(R, 2)) in[rng_below(R, (uint32_t)inlen)] = 0;   /* std::string may hold NUL */
    in[inlen] = 0;
    for (size_t i = 0; i < fl; ++i) fname[i] = (char)(1 + rng_below(R, 255));
    fname[fl] = 0;
    vf_progress("case=%llu cpp %s<%zu> how=%d ctor=%d", (unsigned long long)vf_case, name, (size_t)N, how, ctor);
    X *x;
    if (ctor == 0) { x = new X(); fl = 0; customlen = 0; }
    else if (ctor == 1) x = new X(fname, customlen ? custom.data() : (const unsigned char *)0, customlen);
    else { ascon::byte_array cb(custom.begin(), custom.begin() + customlen); x = new X(fname, cb); }
    ref_cxof(a, exp.data(), outlen, declared, (const uint8_t *)fname, fl, custom.data(), customlen, in.data(), inlen);
    size_t half = inlen ? rng_below(R, (uint32_t)inlen + 1) : 0;
    switch (how) {
    case 0: x->absorb(in.data(), half); x->absorb(in.data() + half, inlen - half); x->squeeze(got.data(), outlen); break;
    case 1: { ascon::byte_array ba(in.begin(), in.begin() + inlen); x->absorb(ba); ascon::byte_array o = x->squeeze(outlen); if (o.size() == outlen && outlen) memcpy(got.data(), o.data(), outlen); else if (o.size() != outlen) memset(got.data(), 0, outlen); break; }
    case 2: { x->absorb(in.data(), half); X y(*x); X z; z = y; z.absorb(in.data() + half, inlen - half); z.squeeze(got.data(), outlen); break; }
    case 3: { if (ctor == 0) { x->absorb(in.data(), 1 + (inlen > 5 ? 5 : 0)); x->reset(); } x->absorb(in.data(), inlen); size_t h2 = outlen / 2; x->squeeze(got.data(), h2); x->squeeze(got.data() + h2, outlen - h2); break; }
    case 4: x->absorb(reinterpret_cast<const char *>(in.data())); x->squeeze(got.data(), outlen); break;
    default: { std::string s(reinterpret_cast<const char *>(in.data()), inlen); x->absorb(s); x->squeeze(got.data(), outlen); break; }
    }
    delete x;
    { char k[80]; snprintf(k, sizeof(k), "cpp:%s<%zu>:ctor%d:how%d", name, (size_t)N, ctor, how);
      vf_eq("C17", k, "xof output", got.data(), exp.data(), outlen, "\"inlen\":%zu,\"outlen\":%zu,\"namelen\":%zu,\"customlen\":%zu", inlen, outlen, fl, customlen);
      vf_eq("C03", k, "xof output through the C++ template (xof.h) vs the specification", got.data(), exp.data(), outlen, "\"inlen\":%zu,\"outlen\":%zu,\"namelen\":%zu,\"customlen\":%zu", inlen, outlen, fl, customlen); }
    vf_out(got.data(), outlen);
    vf_distinct("cpp|%s<%zu>|ctor%d|how%d", name, (size_t)N, ctor, how);
}

typedef void (*case_fn)(uint64_t);
static void c_hash(uint64_t) { hash_case<ascon::hash>(0, "hash"); }
static void c_hasha(uint64_t) { hash_case<ascon::hasha>(1, "hasha"); }
static void c_xof0(uint64_t) { xof_case<ascon::xof_with_output_length<0>, 0>(0, "xof"); }
static void c_xof1(uint64_t) { xof_case<ascon::xof_with_output_length<1>, 1>(0, "xof"); }
static void c_xof32(uint64_t) { xof_case<ascon::xof_with_output_length<32>, 32>(0, "xof"); }
static void c_xof64(uint64_t) { xof_case<ascon::xof_with_output_length<64>, 64>(0, "xof"); }
static void c_xofa0(uint64_t) { xof_case<ascon::xofa_with_output_length<0>, 0>(1, "xofa"); }
static void c_xofa32(uint64_t) { xof_case<ascon::xofa_with_output_length<32>, 32>(1, "xofa"); }
static void c_xofa64(uint64_t) { xof_case<ascon::xofa_with_output_length<64>, 64>(1, "xofa"); }

static const case_fn CASES[] = {
    session<ascon::aead128>, session<ascon::aead128a>, session<ascon::aead80pq>,
    session<ascon::aead128_masked>, session<ascon::aead128a_masked>, session<ascon::aead80pq_masked>,
    session<ascon::siv128>, session<ascon::siv128a>, session<ascon::siv80pq>,
    session<ascon::isap128>, session<ascon::isap128a>, session<ascon::isap80pq>,
    c_hash, c_hasha, c_xof0, c_xof1, c_xof32, c_xof64, c_xofa0, c_xofa32, c_xofa64,
};
#define NCASES (sizeof(CASES) / sizeof(CASES[0]))

int main(int argc, char **argv)
{
    vf_args_t a;
    rng_t r;
    uint64_t n;
    vf_prop = "C17";
    vf_parse_args(argc, argv, &a);
    n = (uint64_t)(a.cases >= 0 ? a.cases : 21000);
    R = &r;
    for (uint64_t idx = 0; idx < n; ++idx) {
        size_t which = idx % NCASES;
        if (!vf_mine(&a, idx)) continue;
        if (a.arg && !strcmp(a.arg, "ciphers") && which >= 12) continue;
        if (a.arg && !strcmp(a.arg, "hashes") && which < 12) continue;
        rng_seed(&r, a.seed ^ 0xc99, idx);
        vf_case_begin(idx);
        CASES[which](idx);
        vf_case_end();
        vf_count("cases", 1);
    }
    gcheck_all("end");
    vf_finish();
    return 0;
}
