#ifndef VERIF_TRNG_TAPE_H
#define VERIF_TRNG_TAPE_H
#include <stdint.h>
#include <stddef.h>
#ifdef __cplusplus
extern "C" {
#endif
enum { TAPE_RANDOM = 0, TAPE_ZERO, TAPE_ONES, TAPE_REPEAT, TAPE_COUNTER, TAPE_ALTERNATE, TAPE_DISTINCT, TAPE_NMODES };
extern int tape_mode;
extern uint64_t tape_state, tape_repeat;
extern long tape_draws64, tape_draws32, tape_generate_calls, tape_inits, tape_frees, tape_reseeds;
extern int tape_fail_generate;
void tape_set(int mode, uint64_t seed);
const char *tape_name(int mode);
#ifdef __cplusplus
}
#endif
#endif
