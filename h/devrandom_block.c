/* LD_PRELOAD shim for the command-line tools: makes the random DEVICE FILES unavailable (open/openat/fopen of /dev/urandom,
 * /dev/random, /dev/hwrng fail with ENOENT).  Together with `strace -e inject=getrandom:error=ENOSYS` (every call) this is
 * "the random source fails" whatever interface to it a tool tries.  Every blocked open is appended to $VF_BLOCK_LOG. */
#define _GNU_SOURCE
#include <dlfcn.h>
#include <errno.h>
#include <fcntl.h>
#include <stdarg.h>
#include <stdio.h>
#include <stdlib.h>
#include <string.h>
#include <sys/syscall.h>
#include <unistd.h>

static int blocked(const char *p)
{
    if (!p || (strcmp(p, "/dev/urandom") && strcmp(p, "/dev/random") && strcmp(p, "/dev/hwrng"))) return 0;
    {   const char *f = getenv("VF_BLOCK_LOG");
        if (f) {
            int fd = (int)syscall(SYS_openat, AT_FDCWD, f, O_WRONLY | O_CREAT | O_APPEND, 0644);
            if (fd >= 0) { (void)!write(fd, p, strlen(p)); (void)!write(fd, "\n", 1); close(fd); }
        }
    }
    errno = ENOENT;
    return 1;
}
#define OPENLIKE(NAME) \
int NAME(const char *path, int flags, ...) { \
    static int (*real)(const char *, int, ...); mode_t m = 0; \
    if (flags & (O_CREAT | O_TMPFILE)) { va_list ap; va_start(ap, flags); m = (mode_t)va_arg(ap, int); va_end(ap); } \
    if (blocked(path)) return -1; \
    if (!real) real = (int (*)(const char *, int, ...))dlsym(RTLD_NEXT, #NAME); \
    return real(path, flags, m); }
OPENLIKE(open) OPENLIKE(open64)
#define OPENATLIKE(NAME) \
int NAME(int dfd, const char *path, int flags, ...) { \
    static int (*real)(int, const char *, int, ...); mode_t m = 0; \
    if (flags & (O_CREAT | O_TMPFILE)) { va_list ap; va_start(ap, flags); m = (mode_t)va_arg(ap, int); va_end(ap); } \
    if (blocked(path)) return -1; \
    if (!real) real = (int (*)(int, const char *, int, ...))dlsym(RTLD_NEXT, #NAME); \
    return real(dfd, path, flags, m); }
OPENATLIKE(openat) OPENATLIKE(openat64)
#define FOPENLIKE(NAME) \
FILE *NAME(const char *path, const char *mode) { \
    static FILE *(*real)(const char *, const char *); \
    if (blocked(path)) return 0; \
    if (!real) real = (FILE *(*)(const char *, const char *))dlsym(RTLD_NEXT, #NAME); \
    return real(path, mode); }
FOPENLIKE(fopen) FOPENLIKE(fopen64)
