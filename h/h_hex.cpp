/* C20 (first half): hex codec.  C functions with guard-page buffers; C++ helpers. */
#include "common.h"
#include <ascon/utility.h>
#include <string>
#include <vector>

static rng_t *R;
static const char WS[] = " \t\r\n\f\v";

static int hexval(int c)
{
    if (c >= '0' && c <= '9') return c - '0';
    if (c >= 'a' && c <= 'f') return c - 'a' + 10;
    if (c >= 'A' && c <= 'F') return c - 'A' + 10;
    return -1;
}

/* model of the decoder: returns number of bytes or -1 */
static int model_decode(const std::string &s, std::vector<unsigned char> &out, size_t outlen)
{
    int hi = -1;
    out.clear();
    for (size_t i = 0; i < s.size(); ++i) {
        unsigned char ch = (unsigned char)s[i];
        int v = hexval(ch);
        if (v < 0) {
            if (ch && strchr(WS, ch)) continue;
            return -1;
        }
        if (hi < 0) hi = v;
        else {
            if (out.size() >= outlen) return -1;
            out.push_back((unsigned char)(hi << 4 | v));
            hi = -1;
        }
    }
    return hi >= 0 ? -1 : (int)out.size();
}

static void cpp_vs_c(const std::string &s, const char *cls);

/* run the C decoder on exact buffers; compares with the model */
static void decode_check(const std::string &s, size_t outlen, const char *cls)
{
    std::vector<unsigned char> exp;
    int want = model_decode(s, exp, outlen), got;
    char *in = (char *)galloc(s.size(), (int)rng_below(R, 2));
    unsigned char *out = (unsigned char *)galloc(outlen, 1);
    char key[64];
    if (s.size()) memcpy(in, s.data(), s.size());
    got = ascon_bytes_from_hex(out, outlen, in, s.size());
    vf_out_int(got);
    if (got != want) {
        snprintf(key, sizeof(key), "hex:from_hex:return:%s", cls);
        vf_violation("C20", key, "\"in\":\"%s\",\"inlen\":%zu,\"outlen\":%zu,\"got\":%d,\"want\":%d", vf_h((const uint8_t *)s.data(), s.size()), s.size(), outlen, got, want);
    } else if (want > 0) {
        snprintf(key, sizeof(key), "hex:from_hex:bytes:%s", cls);
        vf_eq("C20", key, "decoded bytes", out, exp.data(), (size_t)want, "\"in\":\"%s\"", vf_h((const uint8_t *)s.data(), s.size()));
        vf_out(out, (size_t)want);
    }
    if (want >= 0) {
        for (size_t i = (size_t)want; i < outlen; ++i)
            if (out[i] != GPAT) { vf_count("from_hex_wrote_inside_buffer_beyond_result", 1); break; }   /* allowed: "never writes beyond the space given" (guard page after outlen) */
    }
    vf_count("decodes", 1);
    gfree(in); gfree(out);
}

static std::string rand_hex(size_t nbytes, std::vector<unsigned char> &bytes, int ws)
{
    static const char lo[] = "0123456789abcdef", up[] = "0123456789ABCDEF";
    std::string s;
    bytes.resize(nbytes);
    for (size_t i = 0; i < nbytes; ++i) {
        unsigned char b = (unsigned char)rng_below(R, 256);
        bytes[i] = b;
        const char *t = rng_below(R, 2) ? lo : up;
        if (ws && rng_below(R, 4) == 0) s += WS[rng_below(R, 6)];
        s += t[b >> 4];
        if (ws && rng_below(R, 5) == 0) s += WS[rng_below(R, 6)];   /* between the two nibbles */
        s += t[b & 15];
    }
    if (ws && rng_below(R, 2)) s += WS[rng_below(R, 6)];
    return s;
}

static void case_roundtrip(uint64_t idx)
{
    size_t n = idx <= 300 ? (size_t)idx : rng_below(R, 2000);
    std::vector<unsigned char> bytes(n);
    int upper = (int)rng_below(R, 2), r;
    unsigned char *in = (unsigned char *)galloc(n, 1);
    char *hex = (char *)galloc(2 * n + 1, 1);
    vf_progress("case=%llu hex roundtrip n=%zu", (unsigned long long)idx, n);
    fill_pattern(R, in, n, pick_pattern(R));
    r = ascon_bytes_to_hex(hex, 2 * n + 1, in, n, upper);
    if (r != (int)(2 * n) || hex[2 * n] != 0) vf_violation("C20", "hex:to_hex:return", "\"n\":%zu,\"ret\":%d", n, r);
    else {
        for (size_t i = 0; i < 2 * n; ++i) {
            int v = hexval(hex[i]);
            bool caseok = !(hex[i] >= 'a' && hex[i] <= 'f' && upper) && !(hex[i] >= 'A' && hex[i] <= 'F' && !upper);
            if (v < 0 || !caseok || v != ((in[i / 2] >> ((i & 1) ? 0 : 4)) & 15)) { vf_violation("C20", "hex:to_hex:digits", "\"n\":%zu,\"at\":%zu,\"upper\":%d", n, i, upper); break; }
        }
        vf_out(hex, 2 * n);
        std::string s(hex, 2 * n);
        decode_check(s, n, "roundtrip");
        decode_check(s, n + 3, "roundtrip-larger-buffer");
        if (n) decode_check(s, n - 1, "outlen-one-too-small");
    }
    /* encoder with too little space: must not report success (writes stay inside the buffer: guard page) */
    for (int k = 0; k < 3; ++k) {
        size_t ol = k == 0 ? 2 * n : k == 1 ? 0 : rng_below(R, (uint32_t)(2 * n + 1));
        char *small = (char *)galloc(ol, 1);
        r = ascon_bytes_to_hex(small, ol, in, n, upper);
        /* the encoder cannot succeed without room for 2n digits and the terminator; what it leaves in the (guarded) buffer is its business */
        if (r >= 0) vf_violation("C20", "hex:to_hex:short-buffer-accepted", "\"n\":%zu,\"outlen\":%zu,\"ret\":%d", n, ol, r);
        gfree(small);
    }
    /* C++ helpers */
    {
        std::string h1 = ascon::bytes_to_hex(in, n, upper != 0);
        ascon::byte_array ba(in, in + n);
        std::string h2 = ascon::bytes_to_hex(ba, upper != 0);
        if (h1 != std::string(hex, 2 * n) || h2 != h1) vf_violation("C20", "hex:cpp:bytes_to_hex", "\"n\":%zu", n);
        ascon::byte_array d1 = ascon::bytes_from_hex(h1.c_str(), h1.size()), d2 = ascon::bytes_from_hex(h1.c_str()), d3 = ascon::bytes_from_hex(h1);
        ascon::byte_array d4 = ascon::bytes_from_data(in, n);
        if (d1 != ba || d2 != ba || d3 != ba) vf_violation("C20", "hex:cpp:bytes_from_hex-roundtrip", "\"n\":%zu,\"sizes\":\"%zu %zu %zu\"", n, d1.size(), d2.size(), d3.size());
        if (h1 != std::string(hex, 2 * n) || h2 != h1) vf_violation("C17", "cpp:bytes_to_hex:differs-from-C", "\"n\":%zu", n);
        cpp_vs_c(h1, "roundtrip");
        if (d4 != ba) vf_violation("C20", "hex:cpp:bytes_from_data", "\"n\":%zu", n);
    }
    vf_distinct("roundtrip|n%s|%s", n == 0 ? "0" : n < 16 ? "<16" : n < 256 ? "<256" : "big", upper ? "upper" : "lower");
    gfree(in); gfree(hex);
}

/* C17: the C++ helpers must return exactly what the C functions return for the same input */
static void cpp_vs_c(const std::string &s, const char *cls)
{
    std::vector<unsigned char> buf(s.size() / 2 + 2);
    int r = ascon_bytes_from_hex(buf.data(), buf.size(), s.data(), s.size());
    ascon::byte_array want;
    char key[96];
    if (r > 0) want = ascon::byte_array(buf.begin(), buf.begin() + r);
    ascon::byte_array d1 = ascon::bytes_from_hex(s.data(), s.size()), d3 = ascon::bytes_from_hex(s);
    if (d1 != want) { snprintf(key, sizeof(key), "cpp:bytes_from_hex(ptr,len):differs-from-C:%s", cls); vf_violation("C17", key, "\"in\":\"%s\",\"c_result\":%d,\"cpp_size\":%zu", vf_h((const uint8_t *)s.data(), s.size()), r, d1.size()); }
    if (d3 != want) { snprintf(key, sizeof(key), "cpp:bytes_from_hex(string):differs-from-C:%s", cls); vf_violation("C17", key, "\"in\":\"%s\",\"c_result\":%d,\"cpp_size\":%zu", vf_h((const uint8_t *)s.data(), s.size()), r, d3.size()); }
    if (s.find('\0') == std::string::npos) {
        ascon::byte_array d2 = ascon::bytes_from_hex(s.c_str());
        if (d2 != want) { snprintf(key, sizeof(key), "cpp:bytes_from_hex(ptr):differs-from-C:%s", cls); vf_violation("C17", key, "\"in\":\"%s\",\"c_result\":%d,\"cpp_size\":%zu", vf_h((const uint8_t *)s.data(), s.size()), r, d2.size()); }
    }
    vf_count("cpp_helper_vs_c_comparisons", 1);
}

static void case_grammar(uint64_t idx)
{
    std::vector<unsigned char> bytes;
    size_t n = rng_below(R, 40);
    std::string s = rand_hex(n, bytes, 1);
    vf_progress("case=%llu hex grammar n=%zu", (unsigned long long)idx, n);
    decode_check(s, n, "whitespace");
    decode_check(s, n + 1 + rng_below(R, 9), "whitespace-larger-buffer");
    if (n) decode_check(s, n - 1, "whitespace-outlen-too-small");
    /* C++ helper must return exactly the decoded bytes */
    {
        ascon::byte_array want(bytes.begin(), bytes.end());
        ascon::byte_array d1 = ascon::bytes_from_hex(s.data(), s.size()), d3 = ascon::bytes_from_hex(s);
        if (d1 != want) vf_violation("C20", "hex:cpp:bytes_from_hex(ptr,len):not-exact", "\"in\":\"%s\",\"size\":%zu,\"want\":%zu", vf_h((const uint8_t *)s.data(), s.size()), d1.size(), want.size());
        if (d3 != want) vf_violation("C20", "hex:cpp:bytes_from_hex(string):not-exact", "\"in\":\"%s\",\"size\":%zu,\"want\":%zu", vf_h((const uint8_t *)s.data(), s.size()), d3.size(), want.size());
        if (s.find('\0') == std::string::npos) {
            ascon::byte_array d2 = ascon::bytes_from_hex(s.c_str());
            if (d2 != want) vf_violation("C20", "hex:cpp:bytes_from_hex(ptr):not-exact", "\"size\":%zu,\"want\":%zu", d2.size(), want.size());
        }
    }
    cpp_vs_c(s, "whitespace");
    /* odd digit count */
    { std::string o = s + "a"; cpp_vs_c(o, "odd"); decode_check(o, n + 2, "odd-digits"); if (!ascon::bytes_from_hex(o).empty()) vf_violation("C20", "hex:cpp:invalid-not-empty", "\"kind\":\"odd\""); }
    vf_distinct("grammar|n%s|ws%s", n == 0 ? "0" : n < 8 ? "<8" : ">=8", s.size() > 2 * n ? "y" : "n");
}

/* every byte value at every position of a short string */
static void case_badchars(uint64_t idx)
{
    size_t n = 1 + rng_below(R, 4);
    std::vector<unsigned char> bytes;
    std::string base = rand_hex(n, bytes, 0);
    vf_progress("case=%llu hex badchars n=%zu", (unsigned long long)idx, n);
    for (size_t pos = 0; pos <= base.size(); ++pos) {
        for (int ch = 0; ch < 256; ++ch) {
            std::string s = base;
            s.insert(pos, 1, (char)ch);        /* insertion: digit -> odd count; whitespace -> fine; other -> invalid */
            decode_check(s, n + 1, "insert-any-byte");
            std::string t = base;
            if (pos < t.size()) { t[pos] = (char)ch; decode_check(t, n, "replace-any-byte"); }
            if (hexval(ch) < 0 && !(ch && strchr(WS, ch))) {
                if (!ascon::bytes_from_hex(s.data(), s.size()).empty()) vf_violation("C20", "hex:cpp:invalid-not-empty", "\"char\":%d,\"pos\":%zu", ch, pos);
                /* the std::string overload sees the whole string, an embedded NUL included */
                if (!ascon::bytes_from_hex(s).empty()) vf_violation("C20", "hex:cpp:invalid-not-empty:string-overload", "\"char\":%d,\"pos\":%zu,\"size\":%zu", ch, pos, ascon::bytes_from_hex(s).size());
                if (ch == 0 || (pos + ch) % 17 == 0) cpp_vs_c(s, "invalid");
            }
        }
    }
    vf_distinct("badchars|n%zu", n);
}

int main(int argc, char **argv)
{
    vf_args_t a;
    rng_t r;
    uint64_t n;
    vf_prop = "C20";
    vf_parse_args(argc, argv, &a);
    n = 301 + (uint64_t)(a.cases >= 0 ? a.cases : 6000);
    R = &r;
    for (uint64_t idx = 0; idx < n; ++idx) {
        if (!vf_mine(&a, idx)) continue;
        rng_seed(&r, a.seed ^ 0x4e8, idx);
        vf_case_begin(idx);
        if (idx <= 300) case_roundtrip(idx);
        else switch (idx % 8) { case 0: case_badchars(idx); break; case 1: case 2: case 3: case_roundtrip(idx); break; default: case_grammar(idx); break; }
        vf_case_end();
        vf_count("cases", 1);
    }
    if (a.shard == 0 && n > 400) vf_sample("\"kind\":\"hex\",\"example\":\"decode 'ab \\\\t c d' with outlen 2 -> 2 bytes ab cd; 'abc' -> -1; 'ab' with outlen 0 -> -1\"");
    gcheck_all("end");
    vf_finish();
    return 0;
}
