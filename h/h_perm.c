/* C08: permutation and byte-range primitives against the reference model.
 * Case space:
 *   [0, 861*8)            byte-range ops: all (offset,size) with offset+size<=40 x 8 states
 *   [R0, R0+12*362)       permutation: 12 first rounds x structured states
 *   [R1, R1+cases)        permutation: random states x random first round
 */
#include "common.h"
#include "ascon_ref.h"
#include <ascon/permutation.h>
#include <ascon/utility.h>

#define NPAIRS 861
static unsigned pair_off[NPAIRS], pair_size[NPAIRS];

static void get_state(const ascon_state_t *st, uint8_t out[40])
{
    ascon_extract_bytes(st, out, 0, 40);
}

static void set_state(ascon_state_t *st, const uint8_t in[40], int how)
{
    ascon_init(st);
    if (how) ascon_overwrite_bytes(st, in, 0, 40);
    else ascon_add_bytes(st, in, 0, 40); /* state is zero after init */
}

static void case_bytes(rng_t *r, uint64_t idx)
{
    unsigned pair = (unsigned)(idx / 8), sidx = (unsigned)(idx % 8);
    unsigned off = pair_off[pair], size = pair_size[pair];
    uint8_t s0[40], model[40], got[40], data[40], exp_out[40];
    ascon_state_t *st = (ascon_state_t *)galloc(sizeof(ascon_state_t), 1);
    int end = (int)(idx & 1);
    uint8_t *in = (uint8_t *)galloc(size, end), *out = (uint8_t *)galloc(size, !end);
    unsigned i;
    char ctx[420];

    fill_pattern(r, s0, 40, sidx < PAT_NCLASS ? (int)sidx : PAT_RANDOM);
    fill_pattern(r, data, size, pick_pattern(r));
    memcpy(in, data, size);
    snprintf(ctx, sizeof(ctx), "\"offset\":%u,\"size\":%u,\"state\":\"%s\",\"data\":\"%s\"", off, size, vf_h(s0, 40), vf_h(data, size));
    vf_distinct("bytes|off%u|size%u", off, size);

    for (int op = 0; op < 7; ++op) {
        static const char *opn[] = {"add", "overwrite", "zero", "extract", "extract_and_add", "extract_and_overwrite", "extract_and_overwrite_inplace"};
        vf_progress("case=%llu bytes op=%s off=%u size=%u", (unsigned long long)idx, opn[op], off, size);
        set_state(st, s0, op & 1);
        memcpy(model, s0, 40);
        memset(out, 0xEE, size);
        memcpy(in, data, size);
        memset(exp_out, 0xEE, size);
        switch (op) {
        case 0: ascon_add_bytes(st, in, off, size); for (i = 0; i < size; ++i) model[off + i] ^= data[i]; break;
        case 1: ascon_overwrite_bytes(st, in, off, size); memcpy(model + off, data, size); break;
        case 2: ascon_overwrite_with_zeroes(st, off, size); memset(model + off, 0, size); break;
        case 3: ascon_extract_bytes(st, out, off, size); memcpy(exp_out, model + off, size); break;
        case 4: ascon_extract_and_add_bytes(st, in, out, off, size);
                for (i = 0; i < size; ++i) exp_out[i] = model[off + i] ^ data[i];
                break;
        case 5: ascon_extract_and_overwrite_bytes(st, in, out, off, size);
                for (i = 0; i < size; ++i) { exp_out[i] = model[off + i] ^ data[i]; model[off + i] = data[i]; }
                break;
        default: ascon_extract_and_overwrite_bytes(st, in, in, off, size);
                for (i = 0; i < size; ++i) { exp_out[i] = model[off + i] ^ data[i]; model[off + i] = data[i]; }
                memcpy(out, in, size);
                memcpy(in, data, size);
                break;
        }
        get_state(st, got);
        ascon_free(st);
        vf_out(got, 40); vf_out(out, size);
        {
            char key[96];
            snprintf(key, sizeof(key), "bytes:%s:state", opn[op]);
            vf_eq("C08", key, "state after op", got, model, 40, "%s", ctx);
            snprintf(key, sizeof(key), "bytes:%s:output", opn[op]);
            vf_eq("C08", key, "output buffer", out, exp_out, size, "%s", ctx);
            if (memcmp(in, data, size) != 0 && op != 6)
                vf_violation("C12", "stray-write:input-modified", "\"op\":\"%s\",%s", opn[op], ctx);
        }
        vf_count("byte_ops", 1);
    }
    if (idx % 1500 == 7) vf_sample("\"kind\":\"byte-range\",%s", ctx);
    gfree(in); gfree(out); gfree(st);
}

static void perm_case(uint64_t idx, const uint8_t s0[40], unsigned first_round, const char *cls)
{
    ascon_state_t *st = (ascon_state_t *)galloc(sizeof(ascon_state_t), (int)(idx & 1));
    uint8_t exp[40], got[40];
    vf_progress("case=%llu permute first_round=%u", (unsigned long long)idx, first_round);
    memcpy(exp, s0, 40);
    ref_permute(exp, 12 - first_round);
    set_state(st, s0, (int)(idx >> 1) & 1);
    ascon_permute(st, (uint8_t)first_round);
    get_state(st, got);
    ascon_free(st);
    vf_out(got, 40);
    vf_distinct("perm|round%u|%s", first_round, cls);
    {
        char key[64];
        snprintf(key, sizeof(key), "permute:round%u", first_round);
        vf_eq("C08", key, "state after permute", got, exp, 40, "\"first_round\":%u,\"state\":\"%s\"", first_round, vf_h(s0, 40));
    }
    vf_count("permutations", 1);
    if (idx % 4000 == 11) vf_sample("\"kind\":\"permute\",\"first_round\":%u,\"state\":\"%s\",\"out\":\"%s\"", first_round, vf_h(s0, 40), vf_h(got, 40));
    gfree(st);
}

/* ascon_copy (source released, destination acquired) and ascon_clean */
static void copy_clean_case(rng_t *r, uint64_t idx)
{
    ascon_state_t *src = (ascon_state_t *)galloc(sizeof(ascon_state_t), 1), *dst = (ascon_state_t *)galloc(sizeof(ascon_state_t), 0);
    uint8_t s0[40], got[40];
    unsigned n = rng_below(r, 300);
    uint8_t *buf = (uint8_t *)galloc(n + 8, (int)(idx & 1));
    vf_progress("case=%llu copy/clean n=%u", (unsigned long long)idx, n);
    fill_pattern(r, s0, 40, pick_pattern(r));
    /* at most one state is acquired at any time (the acquire/release checker models one shared resource) */
    set_state(src, s0, 1);
    ascon_release(src);
    ascon_init(dst);
    ascon_add_bytes(dst, s0 + 3, 0, 20);         /* destination holds something else first */
    ascon_copy(dst, src);
    get_state(dst, got);
    ascon_release(dst);
    vf_eq("C08", "copy:destination", "state after ascon_copy", got, s0, 40, "\"state\":\"%s\"", vf_h(s0, 40));
    ascon_acquire(src);
    get_state(src, got);
    ascon_release(src);
    vf_eq("C08", "copy:source-changed", "source after ascon_copy", got, s0, 40, "\"state\":\"%s\"", vf_h(s0, 40));
    vf_out(got, 40);
    /* a permutation of the copy must not disturb the source */
    ascon_acquire(dst);
    ascon_permute(dst, 0);
    ascon_release(dst);
    ascon_acquire(src);
    get_state(src, got);
    vf_eq("C08", "copy:aliasing", "source after permuting the copy", got, s0, 40, "\"state\":\"%s\"", vf_h(s0, 40));
    ascon_free(src);
    ascon_acquire(dst);
    ascon_free(dst);
    rng_bytes(r, buf, n + 8);
    for (unsigned i = 0; i < n + 8; ++i) if (!buf[i]) buf[i] = 0x77;
    {   uint8_t tail[8]; memcpy(tail, buf + n, 8);
        uint8_t *buf2 = (uint8_t *)galloc(n, 1);
        for (unsigned i = 0; i < n; ++i) buf2[i] = (uint8_t)~buf[i];      /* every byte differs */
        ascon_clean(buf, n);
        ascon_clean(buf2, n);
        /* C13 demands independence from the previous contents, not a particular fill value */
        for (unsigned i = 0; i < n; ++i) if (buf[i] != buf2[i]) { vf_violation("C13", "clean:depends-on-contents", "\"n\":%u,\"at\":%u", n, i); break; }
        for (unsigned i = 0; i < n; ++i) if (buf[i]) { vf_count("ascon_clean_nonzero_fill", 1); break; }
        gfree(buf2);
        if (memcmp(tail, buf + n, 8)) vf_violation("C12", "stray-write:ascon_clean", "\"n\":%u", n); }
    vf_distinct("copy-clean|n%s", n == 0 ? "0" : n < 8 ? "<8" : n % 8 ? "odd" : "x8");
    vf_count("copy_clean_cases", 1);
    gfree(src); gfree(dst); gfree(buf);
}

int main(int argc, char **argv)
{
    vf_args_t a;
    uint64_t idx, base;
    unsigned n = 0, off, size;
    long nrandom;
    vf_prop = "C08";
    vf_parse_args(argc, argv, &a);
    for (off = 0; off <= 40; ++off)
        for (size = 0; off + size <= 40; ++size) { pair_off[n] = off; pair_size[n] = size; ++n; }
    if (n != NPAIRS) { fprintf(stderr, "HARNESS pair table %u\n", n); return 2; }
    nrandom = a.cases >= 0 ? a.cases : (a.thorough ? 200000 : 2000);

    for (idx = 0; idx < (uint64_t)NPAIRS * 8; ++idx) {
        rng_t r;
        if (!vf_mine(&a, idx)) continue;
        rng_seed(&r, a.seed, idx);
        vf_case_begin(idx);
        case_bytes(&r, idx);
        vf_case_end();
        vf_count("cases", 1);
    }
    base = (uint64_t)NPAIRS * 8;
    for (idx = base; idx < base + 12 * 362; ++idx) {
        uint8_t s0[40];
        unsigned k = (unsigned)((idx - base) / 12), fr = (unsigned)((idx - base) % 12);
        const char *cls;
        if (!vf_mine(&a, idx)) continue;
        memset(s0, 0, 40);
        if (k == 0) cls = "zero";
        else if (k == 1) { memset(s0, 0xff, 40); cls = "ones"; }
        else if (k < 322) { s0[(k - 2) / 8] = (uint8_t)(0x80 >> ((k - 2) % 8)); cls = "onebit"; }
        else { s0[k - 322] = 0xff; cls = "onebyte"; }
        vf_case_begin(idx);
        perm_case(idx, s0, fr, cls);
        vf_case_end();
        vf_count("cases", 1);
    }
    base += 12 * 362;
    for (idx = base; idx < base + (uint64_t)nrandom; ++idx) {
        rng_t r;
        uint8_t s0[40];
        if (!vf_mine(&a, idx)) continue;
        rng_seed(&r, a.seed, idx);
        rng_bytes(&r, s0, 40);
        vf_case_begin(idx);
        perm_case(idx, s0, rng_below(&r, 12), "random");
        vf_case_end();
        vf_count("cases", 1);
    }
    base += (uint64_t)nrandom;
    for (idx = base; idx < base + 400; ++idx) {
        rng_t r;
        if (!vf_mine(&a, idx)) continue;
        rng_seed(&r, a.seed, idx);
        vf_case_begin(idx);
        copy_clean_case(&r, idx);
        vf_case_end();
        vf_count("cases", 1);
    }
    gcheck_all("end");
    vf_finish();
    return 0;
}
