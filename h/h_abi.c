/* C18 monitor 2: native x86-64 assembly entry points called through a sentinel trampoline.
 * Checks: callee-saved registers (rbx, rbp, r12-r15) and rsp restored, DF clear on return,
 * caller frame untouched (128 canary bytes above the return address), operands confined to
 * exactly-sized guard-page objects, and the computed value (permutation vs reference;
 * masked words vs the unmasked model). */
#include "common.h"
#include "ascon_ref.h"
#include "trng_tape.h"
#include <ascon/permutation.h>
#include "masking/ascon-masked-state.h"

struct vf_snap { unsigned long sent[6], after[6], rsp_before, rsp_after, flags_after, canary_bad; };
unsigned long vf_tramp(void *fn, const unsigned long args[4], struct vf_snap *s);
void vf_bad_callee(void);

static rng_t *R;
static const char *regname[6] = {"rbx", "rbp", "r12", "r13", "r14", "r15"};

static int call(const char *name, void *fn, unsigned long a0, unsigned long a1, unsigned long a2, unsigned long a3, int report)
{
    struct vf_snap s;
    unsigned long args[4] = {a0, a1, a2, a3};
    int bad = 0;
    char key[96];
    for (int i = 0; i < 6; ++i) s.sent[i] = rng_u64(R) | 1;
    vf_progress("case=%llu abi %s", (unsigned long long)vf_case, name);
    vf_tramp(fn, args, &s);
    for (int i = 0; i < 6; ++i)
        if (s.after[i] != s.sent[i]) {
            ++bad;
            if (report) { snprintf(key, sizeof(key), "abi:x86-64:%s:callee-saved-%s", name, regname[i]); vf_violation("C18", key, "\"function\":\"%s\",\"register\":\"%s\",\"before\":\"%lx\",\"after\":\"%lx\"", name, regname[i], s.sent[i], s.after[i]); }
        }
    if (s.rsp_after != s.rsp_before) { ++bad; if (report) { snprintf(key, sizeof(key), "abi:x86-64:%s:stack-pointer", name); vf_violation("C18", key, "\"function\":\"%s\",\"rsp_before\":\"%lx\",\"rsp_after\":\"%lx\"", name, s.rsp_before, s.rsp_after); } }
    if (s.flags_after & 0x400) { ++bad; if (report) { snprintf(key, sizeof(key), "abi:x86-64:%s:direction-flag", name); vf_violation("C18", key, "\"function\":\"%s\"", name); } }
    if (s.canary_bad) { ++bad; if (report) { snprintf(key, sizeof(key), "abi:x86-64:%s:caller-frame-written", name); vf_violation("C18", key, "\"function\":\"%s\",\"damaged_words\":%lu", name, s.canary_bad); } }
    vf_count("native_calls", 1);
    vf_distinct("abi|x86-64|%s", name);
    return bad;
}
#define UL(x) ((unsigned long)(x))

static void case_permute(uint64_t idx)
{
    ascon_state_t *st = (ascon_state_t *)galloc(sizeof(*st), (int)(idx & 1));
    uint8_t s0[40], exp[40], got[40];
    unsigned fr = (unsigned)((idx >> 2) % 12);   /* idx % 4 selects the case kind: do not alias with it */
    fill_pattern(R, s0, 40, pick_pattern(R));
    ascon_init(st); ascon_overwrite_bytes(st, s0, 0, 40);
    call("ascon_permute", (void *)ascon_permute, UL(st), fr, 0, 0, 1);
    ascon_extract_bytes(st, got, 0, 40);
    memcpy(exp, s0, 40); ref_permute(exp, 12 - fr);
    vf_eq("C18", "native:x86-64:ascon_permute:value", "permutation through the trampoline", got, exp, 40, "\"first_round\":%u,\"state\":\"%s\"", fr, vf_h(s0, 40));
    ascon_free(st);
    gfree(st);
}

typedef struct { int n; const char *pname; void *permute; void (*from_x1)(ascon_masked_state_t *, const ascon_state_t *, ascon_trng_state_t *); void (*to_x1)(ascon_state_t *, const ascon_masked_state_t *); } mp_t;
static const mp_t MP[] = {
    {2, "ascon_x2_permute", (void *)ascon_x2_permute, ascon_x2_copy_from_x1, ascon_x2_copy_to_x1},
#if ASCON_MASKED_MAX_SHARES >= 3
    {3, "ascon_x3_permute", (void *)ascon_x3_permute, ascon_x3_copy_from_x1, ascon_x3_copy_to_x1},
#endif
#if ASCON_MASKED_MAX_SHARES >= 4
    {4, "ascon_x4_permute", (void *)ascon_x4_permute, ascon_x4_copy_from_x1, ascon_x4_copy_to_x1},
#endif
};

static void case_masked_permute(uint64_t idx)
{
    const mp_t *m = &MP[idx % (sizeof(MP) / sizeof(MP[0]))];
    ascon_masked_state_t *ms = (ascon_masked_state_t *)galloc(sizeof(*ms), (int)(idx & 1));
    uint64_t *preserve = (uint64_t *)galloc(8 * (size_t)(m->n - 1), 1);
    ascon_trng_state_t trng;
    ascon_state_t x1;
    uint8_t s0[40], exp[40], got[40];
    unsigned fr = (unsigned)rng_below(R, 12);
    char key[96];
    tape_set((int)rng_below(R, TAPE_NMODES), rng_u64(R));
    ascon_trng_init(&trng);
    fill_pattern(R, s0, 40, pick_pattern(R));
    ascon_init(&x1); ascon_overwrite_bytes(&x1, s0, 0, 40);
    ascon_masked_state_init(ms);
    m->from_x1(ms, &x1, &trng);
    ascon_free(&x1);
    for (int i = 0; i < m->n - 1; ++i) preserve[i] = rng_u64(R);
    call(m->pname, m->permute, UL(ms), fr, UL(preserve), 0, 1);
    m->to_x1(&x1, ms);
    ascon_extract_bytes(&x1, got, 0, 40);
    ascon_free(&x1);
    memcpy(exp, s0, 40); ref_permute(exp, 12 - fr);
    snprintf(key, sizeof(key), "native:x86-64:%s:value", m->pname);
    vf_eq("C18", key, "masked permutation through the trampoline", got, exp, 40, "\"first_round\":%u", fr);
    ascon_masked_state_free(ms);
    gfree(ms); gfree(preserve);
}

/* every masked-word entry point, argument shapes by kind */
enum { W_TRNG, W_DATA_TRNG, W_DATA_SIZE_TRNG, W_DATA2_TRNG, W_STORE, W_STORE_PARTIAL, W_SRC_TRNG, W_SRC, W_SRC_SIZE, W_PAD, W_SEP };
typedef struct { const char *name; void *fn; int kind, n; } wf_t;
#define WF(N, OP, KIND) {"ascon_masked_word_x" #N "_" #OP, (void *)ascon_masked_word_x##N##_##OP, KIND, N}
#define WFS(N) WF(N, zero, W_TRNG), WF(N, load, W_DATA_TRNG), WF(N, load_partial, W_DATA_SIZE_TRNG), WF(N, load_32, W_DATA2_TRNG), WF(N, store, W_STORE), \
    WF(N, store_partial, W_STORE_PARTIAL), WF(N, randomize, W_SRC_TRNG), WF(N, xor, W_SRC), WF(N, replace, W_SRC_SIZE)
static const wf_t WFN[] = {
    WFS(2),
#if ASCON_MASKED_MAX_SHARES >= 3
    WFS(3), WF(2, from_x3, W_SRC_TRNG), WF(3, from_x2, W_SRC_TRNG),
#endif
#if ASCON_MASKED_MAX_SHARES >= 4
    WFS(4), WF(2, from_x4, W_SRC_TRNG), WF(4, from_x2, W_SRC_TRNG),
#if ASCON_MASKED_MAX_SHARES >= 3
    WF(3, from_x4, W_SRC_TRNG), WF(4, from_x3, W_SRC_TRNG),
#endif
#endif
    {"ascon_masked_word_pad", (void *)ascon_masked_word_pad, W_PAD, 2}, {"ascon_masked_word_separator", (void *)ascon_masked_word_separator, W_SEP, 2},
};

static void case_words(uint64_t idx)
{
    ascon_trng_state_t *trng = (ascon_trng_state_t *)galloc(sizeof(*trng), 1);
    tape_set((int)rng_below(R, TAPE_NMODES), rng_u64(R));
    ascon_trng_init(trng);
    for (size_t f = 0; f < sizeof(WFN) / sizeof(WFN[0]); ++f) {
        const wf_t *w = &WFN[f];
        ascon_masked_word_t *a = (ascon_masked_word_t *)galloc(sizeof(*a), (int)((idx + f) & 1)), *b = (ascon_masked_word_t *)galloc(sizeof(*b), 1);
        unsigned size = 1 + rng_below(R, 7);
        uint8_t *d1 = (uint8_t *)galloc(8, 1), *d2 = (uint8_t *)galloc(8, 0), *dp = (uint8_t *)galloc(size, 1);
        rng_bytes(R, d1, 8); rng_bytes(R, d2, 8); rng_bytes(R, dp, size);
        memset(a, 0, sizeof(*a)); memset(b, 0, sizeof(*b));
        /* valid masked words of the needed share count in a and b */
        ascon_masked_word_x2_load(a, d1, trng); ascon_masked_word_x2_load(b, d2, trng);
        switch (w->kind) {
        case W_TRNG: call(w->name, w->fn, UL(a), UL(trng), 0, 0, 1); break;
        case W_DATA_TRNG: call(w->name, w->fn, UL(a), UL(d1), UL(trng), 0, 1); break;
        case W_DATA_SIZE_TRNG: call(w->name, w->fn, UL(a), UL(dp), size, UL(trng), 1); break;
        case W_DATA2_TRNG: call(w->name, w->fn, UL(a), UL(d1), UL(d2), UL(trng), 1); break;
        case W_STORE: call(w->name, w->fn, UL(d1), UL(a), 0, 0, 1); break;
        case W_STORE_PARTIAL: call(w->name, w->fn, UL(dp), size, UL(a), 0, 1); break;
        case W_SRC_TRNG: call(w->name, w->fn, UL(a), UL(b), UL(trng), 0, 1); break;
        case W_SRC: call(w->name, w->fn, UL(a), UL(b), 0, 0, 1); break;
        case W_SRC_SIZE: call(w->name, w->fn, UL(a), UL(b), size, 0, 1); break;
        case W_PAD: call(w->name, w->fn, UL(a), rng_below(R, 8), 0, 0, 1); break;
        default: call(w->name, w->fn, UL(a), 0, 0, 0, 1); break;
        }
        gfree(a); gfree(b); gfree(d1); gfree(d2); gfree(dp);
    }
    ascon_trng_free(trng);
    gfree(trng);
}

int main(int argc, char **argv)
{
    vf_args_t a;
    rng_t r;
    uint64_t n;
    vf_prop = "C18";
    vf_parse_args(argc, argv, &a);
    R = &r;
    rng_seed(&r, a.seed, 7);
    if (a.arg && !strcmp(a.arg, "canary")) {
        int bad = call("vf_bad_callee", (void *)vf_bad_callee, 0, 0, 0, 0, 0);
        printf("S\tcanary_detected\t%d\n", bad >= 2);
        vf_finish();
        return 0;
    }
    n = (uint64_t)(a.cases >= 0 ? a.cases : 3000);
    for (uint64_t idx = 0; idx < n; ++idx) {
        if (!vf_mine(&a, idx)) continue;
        rng_seed(&r, a.seed ^ 0xab1, idx);
        vf_case_begin(idx);
        switch (idx % 4) { case 0: case 1: case_permute(idx); break; case 2: case_masked_permute(idx); break; default: case_words(idx); break; }
        vf_case_end();
        vf_count("cases", 1);
    }
    gcheck_all("end");
    vf_finish();
    return 0;
}
