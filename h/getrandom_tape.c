/* Deterministic system entropy for harnesses that keep the library's REAL random source
 * (ascon-trng-mixer / ascon-trng-dev-random): getrandom() is defined here, so the static
 * library calls this one.  Also provides the tape_* names h_aead / h_cpp refer to, as
 * no-ops, so those harnesses can be linked without trng_tape.c. */
#include "trng_tape.h"
#include <sys/types.h>
#include <string.h>

int tape_mode = TAPE_RANDOM;
uint64_t tape_state = 1, tape_repeat = 0;
long tape_draws64 = 0, tape_draws32 = 0, tape_generate_calls = 0, tape_inits = 0, tape_frees = 0, tape_reseeds = 0;
int tape_fail_generate = 0;

void tape_set(int mode, uint64_t seed) { tape_mode = mode; tape_state = seed | 1; }
const char *tape_name(int mode)
{
    static const char *n[] = {"random", "zero", "ones", "repeat", "counter", "alternate", "distinct"};
    return n[mode];
}

ssize_t getrandom(void *buf, size_t n, unsigned flags)
{
    unsigned char *p = (unsigned char *)buf;
    (void)flags;
    ++tape_generate_calls;
    for (size_t i = 0; i < n; ++i) {
        uint64_t z = (tape_state += 0x9e3779b97f4a7c15ULL);
        z = (z ^ (z >> 30)) * 0xbf58476d1ce4e5b9ULL;
        z = (z ^ (z >> 27)) * 0x94d049bb133111ebULL;
        p[i] = (unsigned char)(z >> 33);
        if (tape_mode == TAPE_ZERO) p[i] = 0;
        if (tape_mode == TAPE_ONES) p[i] = 0xff;
    }
    return (ssize_t)n;
}
