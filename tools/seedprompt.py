#!/usr/bin/env python3
"""Writes the prompts handed to independent sub-agents (property text + scratch worktree only) into a directory OUTSIDE /verif.
  seedprompt.py <outdir> <kind: break|benign> <round> [Cxx ...]
For each property: <outdir>/prop_Cxx.txt, <outdir>/prompt_Cxx.txt; worktree expected at <outdir>/Cxx.
Nothing about the checks is included; only the property text and (for later rounds) one-line summaries of the changes other
agents already produced (from seeded/*/notes.md headings), so that new changes are different."""
import glob, json, os, re, sys

VERIF = os.path.dirname(os.path.dirname(os.path.abspath(__file__)))

COMMON = """You are helping to evaluate a verification effort for the C/C++ library rweather/ascon-suite (ASCON-based symmetric crypto). You have your own scratch git worktree of the library at __WT__ (a detached checkout; work ONLY inside that directory; do NOT read or touch /verif, /repo or any other directory under __OUT__ except your own worktree and the two text files named here).

The property under study (read it carefully; full text also in __OUT__/prop___ID__.txt):

__PROP__

Build + test command (the library's existing test suite, 114 tests):
    cmake -G Ninja -S __WT__ -B __WT__/_build >/dev/null && cmake --build __WT__/_build >/dev/null && ctest --test-dir __WT__/_build -j8 --timeout 900 | tail -3
Non-default build configurations exist: cmake options -DBACKEND_C32=ON / -DBACKEND_C64=ON / -DBACKEND_DIRECT_XOR=ON / -DBACKEND_GENERIC=ON, -DKEY_SHARES=2..4 -DDATA_SHARES=1..4 -DMAX_SHARES=2..4 (DATA_SHARES <= KEY_SHARES <= MAX_SHARES), -DCHECK_ACQUIRE_RELEASE=ON.
"""

BREAK = COMMON + """
YOUR TASK: produce TWO independent, realistic source changes ("seeded defects") to the library in your worktree, each of which
  (a) BREAKS the property above for some inputs / call sequences / configurations,
  (b) still COMPILES, and still PASSES the existing test suite unchanged (all 114 tests must pass with your change applied, in the default configuration),
  (c) needs something SPECIFIC to manifest - e.g. a particular length class, an unusual input pattern, a particular key/nonce byte value, a multi-step call sequence, a rarely used entry point or overload, a non-default build configuration, or two cooperating sites that each look fine alone. NOT something ordinary use would expose at once, and NOT a "magic value" backdoor keyed on one specific 128-bit constant (that is unrealistic); think of the kinds of bugs a maintainer could plausibly introduce in a refactor or optimisation (off-by-one at a block boundary, wrong branch for a special-cased length, a missed reset, a wrong constant in one backend's table, a carry that stops early, etc.).
  The two changes should use different mechanisms / touch different code.

For EACH change i in {1,2} deliver, in __WT__/_out/ :
  - patch<i>.diff : the output of `git -C __WT__ diff` with ONLY that change applied (must apply cleanly with `git apply` to a pristine checkout; do not include _build or _out in it),
  - demo<i>.c (or .cpp, or an executable demo<i>.sh / demo<i>.py taking the worktree path as $1) : a small stand-alone program using the library's public API (include paths: -I__WT__/src -I__WT__/_build ; link __WT__/_build/src/libascon_static.a) that exits 0 and prints PASS on the UNCHANGED library and exits non-zero and prints FAIL with the change applied. It must decide pass/fail from the property itself (e.g. compare with a value computed independently or via another entry point that must agree, or a known-good constant computed on the unchanged library), not by detecting your patch.
  - notes<i>.md : first line a one-line title of the change; then 5-15 lines: what the change is, which clause of the property it breaks, exactly what is needed for it to manifest (inputs, sequence, configuration incl. cmake options if non-default), and the exact commands you used to build and run the demo in both states, with the observed outputs.
Verify all of this yourself: apply change, build, run ctest (114 pass), run demo (FAIL); revert (`git -C __WT__ checkout -- .`), rebuild, run demo (PASS). When you are finished leave the worktree source tree REVERTED to pristine (only _out/ and _build*/ may remain). Do not commit anything.

Report back briefly: for each change one paragraph (what, where, trigger) and confirm the verification steps you ran.
"""

BENIGN = COMMON + """
YOUR TASK (this is the *false-alarm* side of the evaluation): produce THREE independent source changes to the library in your worktree, each of which
  (a) does NOT break the property above: after the change the property, read literally and carefully, still holds for every input / call sequence / configuration it quantifies over,
  (b) still COMPILES and still PASSES the existing test suite unchanged (all 114 tests, default configuration),
  (c) nevertheless changes the implementation, or the observable behaviour the property leaves free, SUBSTANTIALLY in the code the property is anchored in - in ways that an over-strict or implementation-coupled checker might wrongly flag. Think about what a checker for this property probably observes and then change everything around it that the property does not actually constrain. Examples of the kind of thing wanted (pick what fits this property): restructure the block-processing loop / buffer handling / the order in which independent work is done; process data in different chunk sizes internally; change internal (non-public) struct layout, field order or sizes; use more or less stack, different scratch registers or a different (still legal) frame layout in assembly - for assembly make the change consistently in the generator under tools/ AND the checked-in .S file; draw more, fewer or differently ordered internal random words where the property does not fix them; wipe MORE memory than before or wipe earlier; change the text of error messages or which non-zero status / exit code is used where the property only says "non-zero"/"fails"; return a different value where the documentation allows any of several; make an operation that was a no-op do harmless extra work; add internal locking, thread-local scratch or atomics; replace a branch-free idiom by a different branch-free idiom; reorder independent stores; tighten argument checking in a way that only rejects inputs the property already excludes; move work between init/update/finalize where only the final result is constrained.
  Aim the three changes at DIFFERENT aspects, and make at least one of them go right up to the boundary of what the property permits (something a careless reading of the property would call a violation, but which a careful reading shows is allowed - explain why in the notes).

For EACH change i in {1,2,3} deliver, in __WT__/_out/ :
  - patch<i>.diff : the output of `git -C __WT__ diff` with ONLY that change applied (must apply cleanly with `git apply` to a pristine checkout; do not include _build or _out),
  - notes<i>.md : first line a one-line title; then 8-20 lines: what the change is, what observable difference it makes (if any), and a careful argument why every clause of the property still holds with it (quote the clause); the commands you ran (build, ctest 114 pass) and, where useful, a small experiment showing the property-relevant behaviour is unchanged (e.g. outputs of a public function identical before/after on a range of inputs).
  - optionally witness<i>.c/.cpp/.sh : a program showing that something DID change (e.g. different internal state bytes, different stack usage, different message text) - so that it is clear the change is not a no-op.
Verify: apply change, build, run ctest (114 pass); revert (`git -C __WT__ checkout -- .`). When you are finished leave the worktree source tree REVERTED to pristine (only _out/ and _build*/ may remain). Do not commit anything.

Be rigorous about (a): a change that actually breaks the property is worse than useless here. If you are unsure whether a change keeps the property, drop it and choose another.

Report back briefly: for each change one paragraph (what, where, why the property still holds).
"""

NOTES = {
    'C09': "the defect should make some NON-default build configuration return different bytes than the default configuration for some public function, or make the CHECK_ACQUIRE_RELEASE build (which forces the generic backend and aborts when ascon_acquire/ascon_release/ascon_init/ascon_free calls are unbalanced) abort in single-threaded use of some public API, or make a configuration fail to build - while the default configuration and its 114 tests stay green. The demo builds the library in the needed configuration(s) in separate build dirs under your worktree (e.g. _build_c32) and compares with the default build or with independently known values.",
    'C10': "the masked code is in src/masking and src/aead/ascon-aead-masked-*.c; internal headers (src/masking/*.h, src/random/ascon-trng.h) may be included by your demo with -I__WT__/src -I__WT__/_build -DHAVE_CONFIG_H. A demo may replace the library's random source at link time by defining the functions of src/random/ascon-trng.h itself if it needs chosen randomness.",
    'C11': "the change must keep every function's input/output behaviour identical (all outputs still correct) but introduce a secret-dependent branch, early exit, table lookup indexed by secret data, or secret-dependent memory address on some path. A demo can detect it e.g. by running under `valgrind` with the secret bytes marked undefined via VALGRIND_MAKE_MEM_UNDEFINED from <valgrind/memcheck.h> (valgrind 3.19 is installed; a conditional jump or address depending on undefined data is reported), printing FAIL when valgrind reports such an error inside the library and PASS otherwise; or by counting executed instructions for two secrets. Keep in mind compilers may turn simple `if` statements into branch-free code at -O3; verify that your change really produces a secret-dependent branch/address in the default Release build.",
    'C12': "a demo may be a program that must be compiled with -fsanitize=address,undefined (then build the library for the demo with the same flags: cmake -DCMAKE_BUILD_TYPE=None -DCMAKE_C_FLAGS='-O1 -g -fsanitize=address,undefined -fno-sanitize-recover=all' -DCMAKE_CXX_FLAGS=<same> in a separate build directory under your worktree, e.g. _build_asan) and that uses guard pages (mmap + mprotect) or canary bytes around exactly-sized buffers; 'FAIL' is then a sanitizer report / crash / changed canary. The defect must be a real memory-safety or stray-write defect in library or tool code for VALID arguments (not a functional change), e.g. an off-by-one on a rarely taken path, a configuration-specific overrun, a read past a short input, an unaligned wide access. State in notes the exact flags/build dir used for the demo; the normal build + 114 tests must still pass.",
    'C13': "the demo should inspect the raw bytes of the object after free/clear/destructor in the default (-O3 Release) build, e.g. by running the same public operation history twice with different secrets in the same storage and comparing the bytes, or by checking for non-zero residue where the pristine library leaves zeros.",
    'C15': "a demo can make the system random source deterministic by defining its own `ssize_t getrandom(void*, size_t, unsigned)` in the demo program (when linking against the static library the demo's definition is the one the library calls), and can observe the generator state through the public ascon/permutation.h functions on state->xof.state. Status values documented in src/ascon/random.h: ascon_random/ascon_random_init/ascon_random_reseed return non-zero iff the system source worked; ascon_random_save_seed/ascon_random_load_seed return 0 on success and -1 on failure.",
    'C16': "the change must keep single-threaded behaviour identical (all 114 tests pass, outputs unchanged) but introduce hidden shared mutable state (a static scratch buffer, a lazily initialised global cache/table, a write through a pointer to a shared pre-computed key, a non-atomic global counter, etc.) so that concurrent use of distinct objects, or concurrent read-only use of a shared const object, races. The demo is a pthread program; it may detect the problem by results differing from sequential execution under contention, or by being built with -fsanitize=thread (gcc supports it here; then also build the library with -DCMAKE_C_FLAGS='-O1 -g -fsanitize=thread' -DCMAKE_CXX_FLAGS=<same> in a separate build dir such as _build_tsan) and reporting FAIL when ThreadSanitizer reports a race.",
    'C18': "produce THREE changes here instead of two, of different kinds: (A) a change to one of the NON-x86 assembly backends (ARM, AArch64, RISC-V, m68k, Xtensa, AVR) made CONSISTENTLY in both the generator under tools/ and the checked-in .S file (so the generator reproduces the file), that makes that backend compute a wrong permutation for some starting round, or breaks its ABI (a callee-saved register not restored, stack pointer imbalance, a store outside the state / own frame, an access below the stack pointer). These files are not assembled on this x86-64 host, so the 114 tests still pass. There is no emulator here; your 'demo' for (A) may be a careful written argument in notes plus a script demoA.sh that exits non-zero with the change (e.g. by checking the specific instruction/constant against what the ASCON specification or the other backends use) and 0 without. (B) a change to the x86-64 or i386 assembly (src/core/ascon-asm-x86-64.S, src/core/ascon-asm-i386.S or src/masking/*x86-64.S / *i386.S) AND its generator consistently, that breaks the ABI (e.g. a callee-saved register clobbered on a rarely used path, red-zone/caller-frame write, direction flag, misaligned stack) or the result for a rarely used starting round or share count, while the 114 tests still pass. Demo: a C program calling the function directly (with inline asm to check registers if needed). (C) a change that makes a checked-in .S file differ from what its generator emits (edit only one of the two), semantically invisible - the property demands byte-for-byte identity. Demo: a script that builds the generator and diffs its output with the file. Name the files patchA.diff/demoA.*, patchB.diff/demoB.*, patchC.diff/demoC.* and notesA/B/C.md. Scripts take the worktree path as $1.",
    'C19': "the tools are built at _build/apps/asconcrypt/asconcrypt and _build/apps/asconsum/asconsum. A demo may be a shell or python3 script (demo<i>.sh or demo<i>.py, executable, taking the worktree path as $1) instead of a C program; it may use `strace -e inject=write:error=ENOSPC:when=N -P <abs path>` (available here) to make the k-th write/read fail. It must exit 0/print PASS on the unchanged tools and exit non-zero/print FAIL with the change.",
    'C20': "the non-STL byte_array is only compiled when ASCON_NO_STL is defined; a demo for it should compile src/cplusplus/ascon-byte-array.cpp together with the demo using -DASCON_NO_STL (the 114 tests never compile it, so they trivially still pass; still make sure the default build + tests pass).",
}
BENIGN_NOTES = {
    'C09': "for this property, good candidates are changes to ONE backend's or ONE share configuration's internals (different but equivalent precomputed-table encoding, different dispatch structure, different acquire/release placement that is still balanced, different internal randomness consumption in masked code) that keep every public result byte-identical across configurations.",
    'C10': "internal headers (src/masking/*.h, src/random/ascon-trng.h) may be used. Good candidates: drawing more / fewer / reordered random words where that keeps every share refresh genuinely random and the unmasked values identical; different but valid share encodings (e.g. the rotation of share k) only if the property does not fix them - read the property carefully.",
    'C11': "good candidates: different constant-time idioms, secret-INDEPENDENT branches on public lengths, different memory access patterns that depend only on public values (lengths, positions), extra work on public data.",
    'C13': "good candidates: wiping more, wiping earlier, different wipe primitive (still not optimised away), changed object layout, leaving NON-secret public values (lengths, public nonces, constants) behind only where the property allows it - read the property carefully.",
    'C15': "a change may alter how much system entropy is requested, in how many getrandom calls, and the internal state derivation, as long as every clause of the property (status values, reseed behaviour, forward security, failure handling) still holds.",
    'C16': "good candidates: thread-local caches, properly locked or atomic shared state, pthread_once-initialised tables, per-call stack scratch replaced by heap scratch, etc. - anything that changes the memory-access picture without introducing a race or a cross-thread dependency.",
    'C18': "for assembly, make each change consistently in the generator under tools/ AND the checked-in .S file so that the generator still reproduces the file byte for byte (the property demands that); e.g. a different but legal stack frame size or spill slot layout, different scratch registers (caller-saved), saving an extra callee-saved register properly, reordered independent instructions, different but equivalent instruction selection. Produce one change for an x86-64/i386 file and two for non-x86 files (ARM / AArch64 / RISC-V / m68k / Xtensa / AVR).",
    'C19': "good candidates: different wording of diagnostics, different non-zero exit codes, different temp-file naming or write chunk sizes, extra fsync/flush, checking errors earlier, removing partial output more eagerly - as long as every clause of the property still holds.",
    'C20': "the non-STL byte_array is only compiled when ASCON_NO_STL is defined (src/cplusplus/ascon-byte-array.cpp). Good candidates: different capacity growth policy, different sharing/copy-on-write strategy, different internal representation, accepting/rejecting exactly the same hex inputs by different code.",
}


def prop_text(p):
    out = ['%s: %s' % (p['id'], p['title']), '', 'Statement: ' + p['statement'], '', 'Quantified over: ' + p['quantifier']['text'], '',
           "Why the existing tests cannot settle it: " + p['why_tests_cant'], '', 'Anchored in files: ' + ', '.join(p['anchors']['files']), 'Mechanisms:']
    for m in p['anchors']['mechanism']:
        out.append('  - %s (%s)' % (m['name'], m['where']))
    out.append('Observable at: ' + '; '.join(p['anchors']['observe_at']))
    return '\n'.join(out)


def tried(pid):
    out = []
    for d in sorted(glob.glob(os.path.join(VERIF, 'seeded', pid + '-*'))):
        try:
            meta = json.load(open(d + '/meta.json'))
        except Exception:
            continue
        title = ''
        if os.path.exists(d + '/notes.md'):
            for l in open(d + '/notes.md'):
                l = l.strip().lstrip('#').strip()
                if l:
                    title = l
                    break
        out.append('%s (needs: %s)' % (title[:160], meta.get('needs', '')[:160]))
    return out


def tried_benign(pid):
    out = []
    for d in sorted(glob.glob(os.path.join(VERIF, 'benign', pid + '-*'))):
        if os.path.exists(d + '/notes.md'):
            for l in open(d + '/notes.md'):
                l = l.strip().lstrip('#').strip()
                if l:
                    out.append(l[:200])
                    break
    return out


def main():
    outdir, kind, rnd = sys.argv[1], sys.argv[2], int(sys.argv[3])
    ids = sys.argv[4:]
    props = {}
    for l in open(os.path.join(VERIF, 'properties.jsonl')):
        p = json.loads(l)
        props[p['id']] = p
    ids = ids or sorted(props)
    os.makedirs(outdir, exist_ok=True)
    for i in ids:
        txt = prop_text(props[i])
        open('%s/prop_%s.txt' % (outdir, i), 'w').write(txt + '\n')
        t = (BREAK if kind == 'break' else BENIGN)
        if kind == 'break' and i in NOTES:
            t += '\nNote for this property: ' + NOTES[i] + '\n'
        if kind == 'benign' and i in BENIGN_NOTES:
            t += '\nNote for this property: ' + BENIGN_NOTES[i] + '\n'
        if kind == 'break' and rnd > 1:
            t += "\n\nThis is round %d for this property. The following changes were already produced by earlier rounds - choose DIFFERENT mechanisms, different functions/files and different trigger conditions (ideally other clauses of the property, other entry points, other build configurations, multi-step histories):\n" % rnd
            for x in tried(i):
                t += '  - ' + x + '\n'
            t += "\nPrefer subtle, realistic defects: ones that keep round trips / self-consistency working (so only an independent reference, a cross-entry-point comparison, or a specific boundary exposes them), ones on rarely used overloads or configurations, ones that need two or three calls in a particular order, ones at uncommon sizes (e.g. lengths 63/64/65, multiples of the rate plus one, more than 255 blocks, exactly 2^k), ones that only show for particular byte VALUES at particular positions (e.g. a carry, a sign extension of a byte >= 0x80, a zero byte), and ones in code paths shared by several algorithms but reached with unusual parameters by only one of them.\n"
        if kind == 'benign' and rnd > 1:
            t += "\n\nThis is round %d of the false-alarm side for this property. Earlier rounds already produced the following property-preserving changes - choose DIFFERENT code, different aspects and different boundaries of the property (other clauses, other entry points, other build configurations, other freedoms the property leaves: ordering, timing, representation, resource use, which of several allowed results is returned, behaviour on inputs outside the documented contract):\n" % rnd
            for x in tried_benign(i):
                t += '  - ' + x + '\n'
            t += "\nAlso consider changes in code that the property's functions merely CALL (shared helpers, the permutation backends, the random source, allocation/wiping helpers, the C++ wrappers around the C functions), and changes that combine two of the freedoms at once.\n"
        t = t.replace('__WT__', '%s/%s' % (outdir, i)).replace('__OUT__', outdir).replace('__ID__', i).replace('__PROP__', txt)
        open('%s/prompt_%s.txt' % (outdir, i), 'w').write(t)
    print('wrote %d prompts to %s' % (len(ids), outdir))


if __name__ == '__main__':
    main()
