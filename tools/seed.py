#!/usr/bin/env python3
"""Seeded-defect bookkeeping.
  seed.py confirm <name> <prop> <patch> <demo> [--cmake "-DBACKEND_C32=ON ..."] [--needs "..."]
      In a scratch worktree of /repo HEAD (outside /repo and /verif): build, run the demo (must PASS),
      apply the patch, rebuild, run the 114 tests (must all pass), run the demo (must FAIL).
      On success store /verif/seeded/<name>/{patch.diff,demo.*,meta.json}.
  seed.py run <name> [--checks C01,C02] [--tier quick]
      git apply the patch to /repo, run the checks, git checkout -- . ; record which fired in meta.json.
  seed.py runall [--tier quick]
"""
import argparse, json, os, shutil, subprocess, sys, tempfile, time

VERIF = os.path.dirname(os.path.dirname(os.path.abspath(__file__)))
REPO = os.environ.get('VERIF_REPO', '/repo')


def sh(cmd, **kw):
    return subprocess.run(cmd, stdout=subprocess.PIPE, stderr=subprocess.STDOUT, text=True, **kw)


def build(wt, opts):
    p = sh(['cmake', '-G', 'Ninja', '-S', wt, '-B', wt + '/_build'] + opts)
    if p.returncode:
        return p
    return sh(['cmake', '--build', wt + '/_build'])


def demo_run(wt, demo, tag, extra=''):
    if demo.endswith('.sh') or demo.endswith('.py'):
        try:
            p = sh((['bash'] if demo.endswith('.sh') else ['python3']) + [demo, wt], timeout=900, cwd=wt)
        except subprocess.TimeoutExpired:
            return 124, 'timeout'
        return p.returncode, p.stdout[-1500:]
    exe = '%s/_demo_%s' % (wt, tag)
    cxx = demo.endswith('.cpp') or demo.endswith('.cc')
    cmd = ['g++' if cxx else 'gcc', '-O1', '-o', exe, demo, '-I' + wt + '/src', '-I' + wt + '/_build', '-DHAVE_CONFIG_H',
           ] + [x.replace('{wt}', wt) for x in extra.split() if x != 'RUN_UNDER_VALGRIND'] + [wt + '/_build/src/libascon_static.a']
    if cxx:
        cmd.insert(1, '-std=gnu++11')
    else:
        cmd += ['-lm']
    p = sh(cmd)
    if p.returncode:
        return None, p.stdout
    try:
        p = sh((['valgrind', '-q'] if 'RUN_UNDER_VALGRIND' in extra else []) + [exe], timeout=900, cwd=wt)
    except subprocess.TimeoutExpired:
        return 124, 'timeout'
    return p.returncode, p.stdout[-1500:]


def confirm(a):
    wt = tempfile.mkdtemp(prefix='seedconfirm.', dir='/tmp')
    os.rmdir(wt)
    opts = a.cmake.split() if a.cmake else []
    log = {}
    try:
        assert sh(['git', '-C', REPO, 'worktree', 'add', '--detach', wt, 'HEAD']).returncode == 0
        p = build(wt, opts)
        assert p.returncode == 0, 'baseline build failed: ' + p.stdout[-2000:]
        rc0, out0 = demo_run(wt, os.path.abspath(a.demo), 'base', a.demo_extra)
        log['demo_unchanged'] = {'exit': rc0, 'tail': (out0 or '')[-300:]}
        assert rc0 == 0, 'demo does not pass on the unchanged tree: %s %s' % (rc0, out0)
        p = sh(['git', '-C', wt, 'apply', os.path.abspath(a.patch)])
        assert p.returncode == 0, 'patch does not apply: ' + p.stdout
        p = build(wt, opts)
        assert p.returncode == 0, 'patched build failed: ' + p.stdout[-2000:]
        p = sh(['ctest', '--test-dir', wt + '/_build', '-j8', '--timeout', '900'])
        tail = p.stdout.strip().splitlines()[-3:]
        log['ctest_patched'] = tail
        if not opts:
            assert p.returncode == 0 and '100% tests passed' in p.stdout and 'out of 114' in p.stdout, 'tests fail with the patch: ' + '\n'.join(tail)
        # (with non-default cmake options the result above is informational: the pinned suite is the default configuration,
        #  which is rebuilt and tested below)
        rc1, out1 = demo_run(wt, os.path.abspath(a.demo), 'patched', a.demo_extra)
        log['demo_patched'] = {'exit': rc1, 'tail': (out1 or '')[-300:]}
        assert rc1 not in (0, None), 'demo does not fail with the patch: %s %s' % (rc1, out1)
        if opts:
            # the patch must also keep the default configuration green
            shutil.rmtree(wt + '/_build')
            p = build(wt, [])
            assert p.returncode == 0
            p = sh(['ctest', '--test-dir', wt + '/_build', '-j8', '--timeout', '900'])
            assert p.returncode == 0 and 'out of 114' in p.stdout, 'default-config tests fail with the patch'
            log['ctest_patched_default_cfg'] = p.stdout.strip().splitlines()[-3:]
    except AssertionError as e:
        print('NOT CONFIRMED:', e)
        return 1
    finally:
        sh(['git', '-C', REPO, 'worktree', 'remove', '--force', wt])
        shutil.rmtree(wt, ignore_errors=True)
    d = os.path.join(VERIF, 'seeded', a.name)
    os.makedirs(d, exist_ok=True)
    shutil.copy(a.patch, d + '/patch.diff')
    shutil.copy(a.demo, d + '/demo' + os.path.splitext(a.demo)[1])
    if a.notes and os.path.exists(a.notes):
        shutil.copy(a.notes, d + '/notes.md')
    meta = {'name': a.name, 'property': a.prop, 'needs': a.needs or '', 'cmake_options_for_demo': a.cmake or '', 'demo_extra_compile_args': a.demo_extra or '',
            'confirmed': log, 'confirmed_at_repo_commit': sh(['git', '-C', REPO, 'rev-parse', 'HEAD']).stdout.strip(),
            'source': 'independent sub-agent given only the property text and a scratch worktree', 'detected_by': {}}
    json.dump(meta, open(d + '/meta.json', 'w'), indent=1)
    print('CONFIRMED ->', d)
    return 0


def benign_confirm(a):
    """A property-preserving change: must apply, build and pass the 114 tests; stored under /verif/benign/<name>/."""
    wt = tempfile.mkdtemp(prefix='benconfirm.', dir='/tmp')
    os.rmdir(wt)
    log = {}
    try:
        assert sh(['git', '-C', REPO, 'worktree', 'add', '--detach', wt, 'HEAD']).returncode == 0
        p = sh(['git', '-C', wt, 'apply', os.path.abspath(a.patch)])
        assert p.returncode == 0, 'patch does not apply: ' + p.stdout
        p = build(wt, [])
        assert p.returncode == 0, 'patched build failed: ' + p.stdout[-2000:]
        p = sh(['ctest', '--test-dir', wt + '/_build', '-j8', '--timeout', '900'])
        log['ctest_patched'] = p.stdout.strip().splitlines()[-3:]
        assert p.returncode == 0 and '100% tests passed' in p.stdout and 'out of 114' in p.stdout, 'tests fail with the patch'
    except AssertionError as e:
        print('NOT CONFIRMED:', e)
        return 1
    finally:
        sh(['git', '-C', REPO, 'worktree', 'remove', '--force', wt])
        shutil.rmtree(wt, ignore_errors=True)
    d = os.path.join(VERIF, 'benign', a.name)
    os.makedirs(d, exist_ok=True)
    shutil.copy(a.patch, d + '/patch.diff')
    if a.notes and os.path.exists(a.notes):
        shutil.copy(a.notes, d + '/notes.md')
    meta = {'name': a.name, 'property': a.prop, 'kind': 'property-preserving change (false-alarm probe)', 'confirmed': log,
            'confirmed_at_repo_commit': sh(['git', '-C', REPO, 'rev-parse', 'HEAD']).stdout.strip(),
            'source': 'independent sub-agent given only the property text and a scratch worktree', 'checks': {}}
    json.dump(meta, open(d + '/meta.json', 'w'), indent=1)
    print('CONFIRMED ->', d)
    return 0


def run_one(name, checks, tier, kind='seeded'):
    d = os.path.join(VERIF, kind, name)
    meta = json.load(open(d + '/meta.json'))
    checks = checks or [meta['property']]
    assert sh(['git', '-C', REPO, 'status', '--porcelain', '--untracked-files=no']).stdout.strip() == '', '/repo is dirty'
    p = sh(['git', '-C', REPO, 'apply', d + '/patch.diff'])
    if p.returncode:
        print(name, 'patch does not apply to /repo HEAD:', p.stdout)
        return
    try:
        for c in checks:
            t0 = time.time()
            p = sh([VERIF + '/bin/check', c, '--tier', tier], cwd=VERIF)
            fired = [l for l in p.stdout.splitlines() if l.startswith('VIOLATION')]
            keys = [l.strip() for l in p.stdout.splitlines() if l.startswith('  key=')]
            meta.setdefault('detected_by' if kind == 'seeded' else 'checks', {})[c + ':' + tier] = {'exit': p.returncode, 'violations': len(fired), 'first_keys': [k[:200] for k in keys[:3]],
                                                   'wall_s': round(time.time() - t0, 1)}
            print('%-28s %s:%s exit=%d violations=%d %s' % (name, c, tier, p.returncode, len(fired), keys[0][:110] if keys else ''))
    finally:
        sh(['git', '-C', REPO, 'checkout', '--', '.'])
        # evidence files were rewritten by a run on a mutated tree: restore the committed ones
        sh(['git', '-C', VERIF, 'checkout', '--', 'evidence'])
    json.dump(meta, open(d + '/meta.json', 'w'), indent=1)


def main():
    ap = argparse.ArgumentParser()
    sub = ap.add_subparsers(dest='cmd')
    c = sub.add_parser('confirm')
    c.add_argument('name'); c.add_argument('prop'); c.add_argument('patch'); c.add_argument('demo')
    c.add_argument('--cmake', default=''); c.add_argument('--demo-extra', default=''); c.add_argument('--needs', default=''); c.add_argument('--notes', default='')
    r = sub.add_parser('run'); r.add_argument('name'); r.add_argument('--checks', default=''); r.add_argument('--tier', default='quick')
    ra = sub.add_parser('runall'); ra.add_argument('--tier', default='quick'); ra.add_argument('--only-missing', action='store_true')
    bc = sub.add_parser('benign-confirm'); bc.add_argument('name'); bc.add_argument('prop'); bc.add_argument('patch'); bc.add_argument('--notes', default='')
    br = sub.add_parser('benign-run'); br.add_argument('name'); br.add_argument('--checks', default=''); br.add_argument('--tier', default='quick')
    bra = sub.add_parser('benign-runall'); bra.add_argument('--tier', default='quick'); bra.add_argument('--only-missing', action='store_true')
    bx = sub.add_parser('benign-cross'); bx.add_argument('--tier', default='quick'); bx.add_argument('--only-missing', action='store_true'); bx.add_argument('names', nargs='*'); bx.add_argument('--only', default='')
    a = ap.parse_args()
    if a.cmd == 'confirm':
        return confirm(a)
    if a.cmd == 'run':
        run_one(a.name, [x for x in a.checks.split(',') if x], a.tier)
        return 0
    if a.cmd == 'runall':
        for name in sorted(os.listdir(os.path.join(VERIF, 'seeded'))):
            if not os.path.exists(os.path.join(VERIF, 'seeded', name, 'meta.json')):
                continue
            if a.only_missing and json.load(open(os.path.join(VERIF, 'seeded', name, 'meta.json')))['detected_by']:
                continue
            run_one(name, [], a.tier)
        return 0
    if a.cmd == 'benign-confirm':
        return benign_confirm(a)
    if a.cmd == 'benign-run':
        run_one(a.name, [x for x in a.checks.split(',') if x], a.tier, kind='benign')
        return 0
    if a.cmd == 'benign-cross':
        # every benign change is also run against the checks of the OTHER properties whose anchor files it touches
        import re
        props = {}
        for l in open(os.path.join(VERIF, 'properties.jsonl')):
            p = json.loads(l)
            props[p['id']] = set(p['anchors']['files'])
        for name in sorted(os.listdir(os.path.join(VERIF, 'benign'))):
            d = os.path.join(VERIF, 'benign', name)
            if not os.path.exists(d + '/meta.json') or (a.names and name not in a.names):
                continue
            meta = json.load(open(d + '/meta.json'))
            files = set(re.findall(r'^\+\+\+ b/(\S+)', open(d + '/patch.diff').read(), re.M))
            only = set(x for x in a.only.split(',') if x)
            todo = [q for q in sorted(props) if q != meta['property'] and props[q] & files and (not only or q in only)
                    and not (a.only_missing and (q + ':' + a.tier) in meta.get('checks', {}))]
            if todo:
                run_one(name, todo, a.tier, kind='benign')
        return 0
    if a.cmd == 'benign-runall':
        for name in sorted(os.listdir(os.path.join(VERIF, 'benign'))):
            mp = os.path.join(VERIF, 'benign', name, 'meta.json')
            if not os.path.exists(mp) or (a.only_missing and json.load(open(mp)).get('checks')):
                continue
            run_one(name, [], a.tier, kind='benign')
        return 0
    ap.print_help()
    return 2


if __name__ == '__main__':
    sys.exit(main())
