#!/usr/bin/env python3
"""Print the markdown table of seeded defects (DESIGN.md section 13) from seeded/*/meta.json and notes."""
import json, os, re
root = os.path.join(os.path.dirname(os.path.dirname(os.path.abspath(__file__))), 'seeded')
print('| seeded change | what it needs to manifest | reported by (check: first key) |')
print('|---|---|---|')
for name in sorted(os.listdir(root)):
    mp = os.path.join(root, name, 'meta.json')
    if not os.path.exists(mp):
        continue
    m = json.load(open(mp))
    notes = ''
    np_ = os.path.join(root, name, 'notes.md')
    if os.path.exists(np_):
        notes = open(np_).read()
    title = ''
    for line in notes.splitlines():
        line = line.strip('# *-').strip()
        if len(line) > 15:
            title = line
            break
    title = re.sub(r'\s+', ' ', title)[:110]
    needs = m.get('needs') or m.get('cmake_options_for_demo') or 'default build'
    det = []
    for chk, r in sorted(m.get('detected_by', {}).items()):
        key = (r.get('first_keys') or [''])[0]
        key = re.sub(r'^key=', '', key).split(' detail=')[0]
        det.append('%s: `%s`' % (chk.split(':')[0], key) if r.get('violations') else '%s: NOT reported' % chk.split(':')[0])
    if m.get('triage'):
        det.append('*' + m['triage'] + '*')
    print('| %s %s | %s | %s |' % (name, title.replace('|', '/'), needs.replace('|', '/')[:90], '; '.join(det)))


def benign_table():
    """markdown table of the property-preserving changes (DESIGN.md section 14)"""
    broot = os.path.join(os.path.dirname(root), 'benign')
    print('| property-preserving change | own check | other checks run (anchor files touched) |')
    print('|---|---|---|')
    for name in sorted(os.listdir(broot)):
        mp = os.path.join(broot, name, 'meta.json')
        if not os.path.exists(mp):
            continue
        m = json.load(open(mp))
        title = ''
        np_ = os.path.join(broot, name, 'notes.md')
        if os.path.exists(np_):
            for line in open(np_).read().splitlines():
                line = line.strip('# *-').strip()
                if len(line) > 15:
                    title = line
                    break
        title = re.sub(r'\s+', ' ', title)[:150].replace('|', '/')
        own, other = [], []
        for chk, r in sorted(m.get('checks', {}).items()):
            p = chk.split(':')[0]
            verdict = 'silent' if r['exit'] == 0 and not r['violations'] else ('inconclusive' if r['exit'] == 2 else 'ALARM')
            note = m.get('triage', {}).get(p)
            (own if p == m['property'] else other).append('%s %s%s' % (p, verdict, ' (%s)' % note if note else ''))
        print('| %s %s | %s | %s |' % (name, title, '; '.join(own), ', '.join(other) or '-'))


if __name__ == '__main__':
    import sys
    if '--benign' in sys.argv:
        # the seeded table above was already printed at import time; keep the two outputs separable
        print('\n<!-- benign -->')
        benign_table()
