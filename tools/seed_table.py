#!/usr/bin/env python3
"""Print the markdown table of seeded defects (DESIGN.md section 13) from seeded/*/meta.json and notes."""
import json, os, re
root = os.path.join(os.path.dirname(os.path.dirname(os.path.abspath(__file__))), 'seeded')
print('| seeded change | what it needs to manifest | reported by (check: first key) |')
print('|---|---|---|')
for name in sorted(os.listdir(root)):
    mp = os.path.join(root, name, 'meta.json')
    if not os.path.exists(mp):
        continue
    m = json.load(open(mp))
    notes = ''
    np_ = os.path.join(root, name, 'notes.md')
    if os.path.exists(np_):
        notes = open(np_).read()
    title = ''
    for line in notes.splitlines():
        line = line.strip('# *-').strip()
        if len(line) > 15:
            title = line
            break
    title = re.sub(r'\s+', ' ', title)[:110]
    needs = m.get('needs') or m.get('cmake_options_for_demo') or 'default build'
    det = []
    for chk, r in sorted(m.get('detected_by', {}).items()):
        key = (r.get('first_keys') or [''])[0]
        key = re.sub(r'^key=', '', key).split(' detail=')[0]
        det.append('%s: `%s`' % (chk.split(':')[0], key) if r.get('violations') else '%s: NOT reported' % chk.split(':')[0])
    print('| %s %s | %s | %s |' % (name, title.replace('|', '/'), needs.replace('|', '/')[:90], '; '.join(det)))
