#!/bin/bash
# usage: tools/soak_list.sh <tier> <seed> <prop>...
tier=$1; seed=$2; shift 2
for p in "$@"; do
  t0=$(date +%s)
  out=$(VERIF_SEED=$seed bin/check $p --tier $tier 2>&1); rc=$?
  echo "seed=$seed $p rc=$rc $(( $(date +%s) - t0 ))s $(echo "$out" | tail -1)"
  if [ $rc -ne 0 ]; then echo "$out" | grep -v '^C[0-9][0-9] ' | head -12 | cut -c1-400; fi
done
