#!/usr/bin/env python3
"""Regenerate MANIFEST.json from the table below (claimed checks) — every property
that is not claimed is listed under not_applicable with the reason given here."""
import json, os, subprocess
root = os.path.dirname(os.path.dirname(os.path.abspath(__file__)))

CLAIMED = {
 # id: (category, technique, text, note, design_ref)
 'C08': ('exploration', 'differential runtime monitor vs reference model + ASan/UBSan + guard pages',
         'Real library built for each of the 5 host backends (release and ASan+UBSan), every (offset,size) pair exhaustively, '
         'structured + random states for all 12 starting rounds, each output compared with an independent reference permutation.',
         'Trusts the reference model (validated on pinned vectors); states are sampled from 2^320.', '4 C08'),
}
NOT_YET = 'check not built yet in this round (planned: see DESIGN.md section 4)'

props = [json.loads(l) for l in open(root + '/properties.jsonl')]
checks, na = [], []
for p in props:
    i = p['id']
    if i in CLAIMED:
        cat, tech, text, note, ref = CLAIMED[i]
        checks.append({
            'property_id': i,
            'quick_cmd': 'bin/check %s --tier quick' % i,
            'thorough_cmd': 'bin/check %s --tier thorough' % i,
            'evidence_file': 'evidence/%s.json' % i,
            'replay_cmd_template': 'bin/check %s --replay {path}' % i,
            'engine': 'bin/check',
            'level_claimed': {'category': cat, 'text': text, 'design_ref': 'DESIGN.md section ' + ref},
            'level_note': note,
            'technique': tech,
        })
    else:
        na.append({'property_id': i, 'reason': NOT_YET})
hooks = subprocess.run(['git', '-C', '/repo', 'log', '--format=%H %s'], stdout=subprocess.PIPE, text=True).stdout.splitlines()
hook_commits = [l.split()[0] for l in hooks if l.split(' ', 1)[1].startswith('verif-hook:')]
m = {
 'version': 1,
 'setup_cmd': 'bin/check --setup',
 'hooks': {
   'guard': 'ASCON_SUITE_VERIF',
   'enable': 'every build made by bin/check passes -DASCON_SUITE_VERIF in CMAKE_C_FLAGS/CMAKE_CXX_FLAGS (lib/core.py Ctx.build)',
   'baseline_off_cmd': 'bin/check --baseline-off',
   'source_commits': hook_commits,
   'add_only': True,
 },
 'engines': [{'name': 'bin/check', 'path': 'bin/check', 'serves_properties': sorted(CLAIMED),
              'kind_free_text': 'Python driver: builds /repo with its own CMake per configuration and flavour '
                                '(release / ASan+UBSan / TSan), compiles C/C++ harnesses from h/, runs them sharded under '
                                'monitors (reference-model differential, sanitizers, guard pages, valgrind, interposers) '
                                'and routes violations through known_findings.json'}],
 'checks': checks,
 'not_applicable': na,
 'notes': 'Technique family: runtime monitoring and sanitizers. See DESIGN.md.',
}
json.dump(m, open(root + '/MANIFEST.json', 'w'), indent=1)
print('claimed', len(checks), 'not_applicable', len(na))
