#!/usr/bin/env python3
"""Regenerate MANIFEST.json from the table below (claimed checks) — every property
that is not claimed is listed under not_applicable with the reason given here."""
import json, os, subprocess
root = os.path.dirname(os.path.dirname(os.path.abspath(__file__)))

CLAIMED = {
 # id: (category, technique, text, note, design_ref)
 'C01': ('exploration', 'differential runtime monitor vs independent reference model (guard-page buffers, TRNG tape interposer)',
         'Real library on 5 backend/share builds (quick) or 60 (thorough); 9 C entry-point families; full small (adlen,mlen) grid plus boundary-biased random lengths to 4/64 KiB; 6 key/nonce pattern classes; output bytes and *clen compared with a from-the-spec model.',
         'Trusts the reference model (validated on pinned official vectors); keys/nonces sampled.', '4 C01'),
 'C02': ('exploration', 'mutation-driven runtime monitor (every single-bit flip, truncation, extension) on the real decrypt functions',
         '15 families; per case every bit of ciphertext, tag, AD, nonce and key is flipped, plus structured multi-bit tag forgeries, truncation/extension/short inputs; result sign and the zero-wipe of a 0xA5 pre-filled plaintext buffer are asserted; multi-packet decrypt sessions (genuine and forged packets made by the reference under N+i, carry-chain nonces).',
         'Multi-bit cancelling forgeries are sampled only.', '4 C02'),
 'C03': ('exploration', 'differential runtime monitor vs reference cXOF model',
         'hash/hasha/xof/xofa/fixed/custom entry points, every message length 0..300 and boundary-biased beyond, declared-length and name-length edge values, compared with a from-the-spec sponge.',
         'Trusts the reference; long-name hashing follows doc/cxof.dox.', '4 C03'),
 'C04': ('exploration', 'differential runtime monitor vs reference PRF/HMAC/KMAC + exhaustive single-bit tag mutation for verify',
         'PRF/PrfShort/MAC/HMAC(A)/KMAC(A) one-shot and incremental against the model; PrfShort full (inlen,outlen) grid incl. error results (any non-zero) and input lengths of the form k*2^32+r; declared lengths up to SIZE_MAX incl. >= 2^32; verify against all 128 one-bit-wrong tags.',
         'Trusts the reference; PrfShort short output = truncation.', '4 C04'),
 'C05': ('exploration', 'differential runtime monitor vs generic RFC 5869 / RFC 8018 over the reference',
         'HKDF limit and zero-fill semantics driven across the 8160-byte boundary in random pieces; PBKDF2 iteration counts around the count>1/>2 branches with multi-block output; KDF via cXOF.',
         'Trusts the generic RFC implementations over the validated reference primitives.', '4 C05'),
 'C06': ('exploration', 'differential runtime monitor vs reference SIV/ISAP + raw-byte snapshot monitor on pre-computed keys',
         'SIV and ISAP against the model; ISAP key objects snapshotted before/after every operation in 1..20-packet histories with save/load at a random point.',
         'Trusts the reference (ISAP: official vectors; SIV: pinned library vectors + doc/siv.dox).', '4 C06'),
 'C07': ('exploration', 'history-equivalence runtime monitor (random chunkings, copies, re-init, in-place) vs one-shot results',
         'Random call histories over every incremental interface compared with the one-shot result of the same run; multi-packet AEAD sessions on one state, each packet against the one-shot call.',
         'Histories are sampled; one-shot results tied to the reference in the same run.', '4 C07'),
 'C10': ('exploration', 'link-time TRNG tape interposer + differential runtime monitor on unmasked values and raw share words',
         'Masked AEAD, masked permutations x2/x3/x4, the whole masked-word toolkit and masked keys run under seven chosen random tapes on the x86-64, 64-bit C and 32-bit C masked backends and 4 (quick) / 27 (thorough) share triples each; unmasked values compared with the reference, raw share words compared before/after randomize.',
         'Functional correctness only (not side-channel order); partial sizes 1..7 only.', '4 C10'),
 'C14': ('exploration', 'history monitor with a harness-side 128-bit counter: packet i vs one-shot under N+i, public nonce field, C++ objects',
         'Multi-packet sessions over 3 C session types and 12 C++ classes, starting nonces with every carry-chain length incl. the 2^128 wrap, mixing encrypt / good / bad decrypt; set_nonce lengths 0..40 and set_counter.',
         'Sessions are sampled; attribution rule for C++ mismatches stated in evidence assumptions.', '4 C14'),
 'C17': ('exploration', 'compile probes (one TU per documented member, compiler as oracle) + differential runtime monitor C++ vs C API per keying path',
         '404 compile probes (808 with clang++ in thorough) over every documented member/overload; sessions over all keying paths and overloads of 12 cipher classes compared with the C functions; set_key on objects that already carry a nonce or are mid-session (control object decides); byte-array helper functions vs the C codec; ISAP save_key vs the C save_key; hash/xof templates vs the reference.',
         'g++ 12 / clang++ 14 only.', '4 C17'),
 'C15': ('fault_enumeration', 'link-time getrandom()/storage interposers with scripted faults + trace monitors (determinism, influence, inverse-permutation invariant, reseed counter, status)',
         'Random PRNG histories run under a scripted entropy tape with ENOSYS/EINTR/EAGAIN scripts and storage faults (any number and size of source calls per operation; the interposer records where in a fetch each call happens); for histories with <= 8 source calls all 2^k failure subsets are enumerated; the forward-security invariant is observed after every operation through the public extract + reference inverse permutation; the stateless ascon_random() is exercised in forked children.',
         'Structure only, no output model; histories sampled; 2^-64 coincidences ignored.', '4 C15'),
 'C20': ('exploration', 'model-based runtime monitor (decoder model; std::vector shadow objects compared after every operation) + ASan/UBSan + guard pages',
         'Hex codec on exact guard-page buffers against a small model incl. every byte value at every position of short strings (all three C++ overloads, std::string with embedded NUL); NO_STL byte_array sequences shadowed by std::vector on 4 aliased objects, release and ASan builds.',
         'Operation sequences sampled; undefined vector operations not called.', '4 C20'),
 'C12': ('exploration', 'ASan + UBSan builds of the whole harness corpus on exactly-sized guard-page buffers (canaries, NULL for empty inputs), -O3 builds under guard pages for the assembly, CLI tools under ASan on hostile argument vectors',
         'All ten harness programs re-run with every object between PROT_NONE pages under gcc ASan+UBSan for 5 backend/share builds (quick) or 87 configurations (thorough: the 3 masked backends x all 27 share triples, plus 6 direct-XOR/generic builds); release builds repeat it so that assembly accesses are covered; asconcrypt/asconsum under ASan with file names, passwords, key files and check files around every buffer size.',
         'Red-zone tools miss far/intra-object overflows and library stack locals; only documented argument domains.', '4 C12'),
 'C13': ('exploration', 'differential raw-byte snapshot monitor on released objects (two runs differing only in secrets), -O3 shipped code',
         '42 object types through random histories; bytes of the storage after free/clear/destructor (C++ ciphers also through an ascon::aead* base pointer) compared between two secret sets (randomness drawn during the release comes from a public tape seed), with a liveness check that the bytes before release did differ.',
         'Says nothing about dead stack frames/registers; gcc 12 only.', '4 C13'),
 'C19': ('fault_enumeration', 'process-level observer of the real tools + system-call fault injection with strace (every k-th read/write, open, getrandom; EINTR) + LD_PRELOAD shim that makes the random device files unopenable, tamper enumeration',
         'Round trips over boundary sizes and option styles (key file vs -p cross-decryption, non-ASCII passwords, wrong key file); a bit flip at every byte and every truncation length of encrypted files; failure of the k-th write/read for every k with confirmation that the fault fired; random source unavailable through every interface; asconsum digests and check mode against the reference.',
         'strace/ptrace injects the faults; tty password prompting not exercised.', '4 C19'),
 'C09': ('exploration', 'cross-build transcript differencing of one deterministic workload (per-case output digests) over build configurations',
         '20 configurations quick (5 backends, all (key,data) pairs on the C64 backend, MAX_SHARES 2/3 clamps, 3 acquire/release-checker builds) or 144 thorough; per-case digests of every library output compared across builds; the workload references all 187 public functions; crashes/aborts/build failures are violations.',
         'Equality only on the transcript inputs; each harness also checks against the reference in the same run.', '4 C09'),
 'C11': ('exploration', 'valgrind memcheck taint tracking (secrets marked undefined) on the shipped -O3 objects incl. assembly; outcome arbiter (valgrind lackey segment traces) for reports inside decrypt/verify; lackey trace-pair differencing in thorough',
         'Every keyed primitive driven over public-shape grids with keys, plaintext, passwords, fed entropy and all getrandom bytes tainted; any secret-dependent branch or address is a memcheck report, attributed to the operation in progress; a report inside a decrypt/verify (public outcome) is confirmed or cleared by comparing the instruction+data traces of 57 executions per shape (3 secret sets x 19 tag variants) within each outcome class; a planted branch proves the monitor is live in every build.',
         'Executed paths only; not micro-architectural; C++ wrapper branches on the public result excluded.', '4 C11'),
 'C16': ('exploration', 'ThreadSanitizer build + helgrind + DRD on the -O3 build over a multi-threaded workload with shared const objects; per-thread results vs sequential',
         '2..16 threads (plus a run with the system random source dead, PRNG compared), thousands of thread-operations per run on own objects and shared pre-computed ISAP / masked keys (24 operation kinds incl. HMAC keys longer than the block); 24 cold-start processes per TSan build whose 8 threads all begin with the same operation kind (no sequential warm-up: lazily initialised state is first touched concurrently); three race detectors each proven live by a planted race; results compared with sequential execution after the join.',
         'Schedules sampled; happens-before detectors.', '4 C16'),
 'C18': ('exploration', 'generator re-execution + register/stack sentinel trampolines on native x86-64 and i386 code + instrumented text interpreters for 12 non-host assembly files + ELF/process stack-permission observer',
         'All 18 generator outputs byte-compared (exhaustive over files); native x86-64 entry points (permutations, masked permutations, 35 masked-word functions) and the i386 permutation (32-bit static build) called through trampolines that check callee-saved registers, stack pointer, direction flag and caller-frame canaries; ARMv6, ARMv6-M, ARMv7-M, AArch64, AVR5 (+x2, x3, both strides), m68k (+ColdFire), RV32E/RV32I/RV64I and Xtensa (call0 + windowed) files executed by interpreters for all 12 starting rounds with result, ABI and memory-bounds assertions; GNU_STACK / .note.GNU-stack / live [stack] mapping.',
         'Interpreters model the emitted ISA subsets, not hardware; states sampled.', '4 C18'),
 'C08': ('exploration', 'differential runtime monitor vs reference model + ASan/UBSan + guard pages',
         'Real library built for each of the 5 host backends (release and ASan+UBSan), every (offset,size) pair exhaustively, '
         'structured + random states for all 12 starting rounds, each output compared with an independent reference permutation.',
         'Trusts the reference model (validated on pinned vectors); states are sampled from 2^320.', '4 C08'),
}
NOT_YET = 'check not built yet in this round (planned: see DESIGN.md section 4)'

props = [json.loads(l) for l in open(root + '/properties.jsonl')]
checks, na = [], []
for p in props:
    i = p['id']
    if i in CLAIMED:
        cat, tech, text, note, ref = CLAIMED[i]
        checks.append({
            'property_id': i,
            'quick_cmd': 'bin/check %s --tier quick' % i,
            'thorough_cmd': 'bin/check %s --tier thorough' % i,
            'evidence_file': 'evidence/%s.json' % i,
            'replay_cmd_template': 'bin/check %s --replay {path}' % i,
            'engine': 'bin/check',
            'level_claimed': {'category': cat, 'text': text, 'design_ref': 'DESIGN.md section ' + ref},
            'level_note': note,
            'technique': tech,
        })
    else:
        na.append({'property_id': i, 'reason': NOT_YET})
hooks = subprocess.run(['git', '-C', '/repo', 'log', '--format=%H %s'], stdout=subprocess.PIPE, text=True).stdout.splitlines()
hook_commits = [l.split()[0] for l in hooks if l.split(' ', 1)[1].startswith('verif-hook:')]
m = {
 'version': 1,
 'setup_cmd': 'bin/check --setup',
 'hooks': {
   'guard': 'ASCON_SUITE_VERIF',
   'enable': 'every build made by bin/check passes -DASCON_SUITE_VERIF in CMAKE_C_FLAGS/CMAKE_CXX_FLAGS (lib/core.py Ctx.build)',
   'baseline_off_cmd': 'bin/check --baseline-off',
   'source_commits': hook_commits,
   'add_only': True,
 },
 'engines': [{'name': 'bin/check', 'path': 'bin/check', 'serves_properties': sorted(CLAIMED),
              'kind_free_text': 'Python driver: builds /repo with its own CMake per configuration and flavour '
                                '(release / ASan+UBSan / TSan), compiles C/C++ harnesses from h/, runs them sharded under '
                                'monitors (reference-model differential, sanitizers, guard pages, valgrind, interposers) '
                                'and routes violations through known_findings.json'}],
 'checks': checks,
 'not_applicable': na,
 'notes': 'Technique family: runtime monitoring and sanitizers. See DESIGN.md.',
}
json.dump(m, open(root + '/MANIFEST.json', 'w'), indent=1)
print('claimed', len(checks), 'not_applicable', len(na))
