#!/usr/bin/env python3
"""Regenerates the two generated tables of DESIGN.md (section 13: seeded changes, section 14: property-preserving changes)
between their marker comments, from seeded/*/meta.json and benign/*/meta.json."""
import os, subprocess, sys
V = os.path.dirname(os.path.dirname(os.path.abspath(__file__)))
out = subprocess.run([sys.executable, os.path.join(V, 'tools', 'seed_table.py'), '--benign'], stdout=subprocess.PIPE, text=True).stdout
seeded, benign = out.split('<!-- benign -->')
p = os.path.join(V, 'DESIGN.md')
s = open(p).read()
for tag, body in (('SEEDED', seeded), ('BENIGN', benign)):
    a, b = '<!-- %s-TABLE-BEGIN -->' % tag, '<!-- %s-TABLE-END -->' % tag
    if a in s and b in s:
        i, j = s.index(a) + len(a), s.index(b)
        s = s[:i] + '\n' + body.strip() + '\n' + s[j:]
open(p, 'w').write(s)
print('tables updated')
