#!/usr/bin/env python3
"""One-off: take a pinned subsample of /repo/test/kat/*.txt (the official
submission vectors for the NIST/ISAP/PRF algorithms) into ref/kat_pinned/.
Run once at the pinned commit; the result is committed and never regenerated
by a check (so an edit to /repo/test/kat cannot move the oracle)."""
import os, sys, re
src = sys.argv[1] if len(sys.argv) > 1 else '/repo/test/kat'
dst = os.path.join(os.path.dirname(os.path.abspath(__file__)), '..', 'ref', 'kat_pinned')
for fn in sorted(os.listdir(src)):
    if not fn.endswith('.txt') or fn == 'CMakeLists.txt':
        continue
    recs = open(os.path.join(src, fn)).read().strip().split('\n\n')
    keep = []
    for i, r in enumerate(recs):
        n = i + 1
        small = len(r) < 700
        if n <= 40 or n % 13 == 0 or n == len(recs) or (small and n % 5 == 0):
            keep.append(r)
    # keep files small: cap at 160 records, evenly thinned beyond the first 40
    if len(keep) > 160:
        head, tail = keep[:40], keep[40:]
        step = len(tail) / 120.0
        keep = head + [tail[int(j * step)] for j in range(120)]
    open(os.path.join(dst, fn), 'w').write('\n\n'.join(keep) + '\n')
    print(fn, len(recs), '->', len(keep))
