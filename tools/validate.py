#!/usr/bin/env python3
"""Validate MANIFEST.json and evidence/*.json against the schemas (needs jsonschema: run with python3-vt)."""
import json, sys, glob, os
import jsonschema
root = os.path.dirname(os.path.dirname(os.path.abspath(__file__)))
ok = True
def check(path, schema):
    global ok
    try:
        jsonschema.validate(json.load(open(path)), json.load(open(schema)))
        print('ok   ', path)
    except Exception as e:
        ok = False
        print('FAIL ', path, str(e)[:300])
if os.path.exists(root + '/MANIFEST.json'):
    check(root + '/MANIFEST.json', '/root/.vp/MANIFEST.schema.json')
for p in sorted(glob.glob(root + '/evidence/*.json')):
    check(p, '/root/.vp/EVIDENCE.schema.json')
sys.exit(0 if ok else 1)
