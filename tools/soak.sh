#!/bin/bash
# usage: tools/soak.sh <tier> <seed>...   runs every claimed check and prints one line each
tier=$1; shift
for seed in "$@"; do
  for p in C01 C02 C03 C04 C05 C06 C07 C08 C09 C10 C11 C12 C13 C14 C15 C16 C17 C18 C19 C20; do
    out=$(VERIF_SEED=$seed bin/check $p --tier $tier 2>&1)
    rc=$?
    echo "seed=$seed $p rc=$rc $(echo "$out" | tail -1)"
    if [ $rc -ne 0 ]; then echo "$out" | grep -v '^C[0-9][0-9] ' | head -12 | cut -c1-400; fi
  done
done
