/* Independent, deliberately naive reference model of everything the
 * ascon-suite properties C01..C10, C14, C15, C17 compare against.
 * Written from the specifications (ASCON v1.2, ASCON-PRF, ISAP v2.0,
 * RFC 2104 / 5869 / 8018) and the library's own documentation (cxof.dox,
 * kmac.dox, siv.dox, pbkdf2 header comment); shares no code with /repo. */
#ifndef ASCON_REF_H
#define ASCON_REF_H
#include <stddef.h>
#include <stdint.h>
#ifdef __cplusplus
extern "C" {
#endif

/* canonical big-endian 40-byte state */
void ref_permute(uint8_t s[40], unsigned rounds);       /* the last `rounds` of the 12 rounds */
void ref_permute_inv(uint8_t s[40], unsigned rounds);   /* exact inverse of ref_permute */
void ref_permute_table(uint8_t s[40], unsigned rounds); /* same, via the 5-bit S-box table (slow, self-test) */

/* AEAD.  variant: 0 = ASCON-128, 1 = ASCON-128a, 2 = ASCON-80pq (20 byte key) */
enum { REF_128 = 0, REF_128A = 1, REF_80PQ = 2 };
void ref_aead_encrypt(int v, uint8_t *c, const uint8_t *m, size_t mlen,
                      const uint8_t *ad, size_t adlen, const uint8_t *n, const uint8_t *k);
/* returns 0 and writes m on success, -1 on tag mismatch */
int ref_aead_decrypt(int v, uint8_t *m, const uint8_t *c, size_t clen,
                     const uint8_t *ad, size_t adlen, const uint8_t *n, const uint8_t *k);
void ref_siv_encrypt(int v, uint8_t *c, const uint8_t *m, size_t mlen,
                     const uint8_t *ad, size_t adlen, const uint8_t *n, const uint8_t *k);
/* ISAP: variant 0 = ISAP-A-128, 1 = ISAP-A-128A, 2 = ISAP-A-80PQ */
void ref_isap_encrypt(int v, uint8_t *c, const uint8_t *m, size_t mlen,
                      const uint8_t *ad, size_t adlen, const uint8_t *n, const uint8_t *k);
/* the 80-byte pre-computed key (K_E state || K_A state) */
void ref_isap_precompute(int v, uint8_t out[80], const uint8_t *k);

/* generic customised XOF.  a = 0: XOF family (12/12 rounds), a = 1: XOFA family (12/8).
 * declared = declared output length in BYTES (0 = arbitrary; callers clamp >= 2^29 to 0).
 * name/namelen: function name (hashed with HASH/HASHA when > 32 bytes). */
void ref_cxof(int a, uint8_t *out, size_t outlen, uint64_t declared,
              const uint8_t *name, size_t namelen,
              const uint8_t *custom, size_t customlen,
              const uint8_t *in, size_t inlen);
void ref_hash(int a, uint8_t out[32], const uint8_t *in, size_t inlen);   /* HASH / HASHA */
void ref_xof(int a, uint8_t *out, size_t outlen, const uint8_t *in, size_t inlen);

/* ASCON-PRF family.  declared = output length in bytes placed in the IV (0 = arbitrary) */
void ref_prf(uint8_t *out, size_t outlen, uint64_t declared,
             const uint8_t *in, size_t inlen, const uint8_t key[16]);
void ref_mac(uint8_t tag[16], const uint8_t *in, size_t inlen, const uint8_t key[16]);
/* PrfShort with t = 128: writes 16 bytes (inlen <= 16) */
void ref_prf_short(uint8_t out[16], const uint8_t *in, size_t inlen, const uint8_t key[16]);

/* RFC 2104 / 5869 / 8018 over HASH (a=0) or HASHA (a=1), block 64, digest 32 */
void ref_hmac(int a, uint8_t out[32], const uint8_t *key, size_t keylen, const uint8_t *in, size_t inlen);
/* returns -1 (nothing written) if outlen > 255*32 */
int ref_hkdf(int a, uint8_t *out, size_t outlen, const uint8_t *key, size_t keylen,
             const uint8_t *salt, size_t saltlen, const uint8_t *info, size_t infolen);
void ref_pbkdf2_hmac(uint8_t *out, size_t outlen, const uint8_t *pw, size_t pwlen,
                     const uint8_t *salt, size_t saltlen, unsigned long count);
void ref_pbkdf2(uint8_t *out, size_t outlen, const uint8_t *pw, size_t pwlen,
                const uint8_t *salt, size_t saltlen, unsigned long count);
void ref_kmac(int a, uint8_t *out, size_t outlen, const uint8_t *key, size_t keylen,
              const uint8_t *in, size_t inlen, const uint8_t *custom, size_t customlen);
void ref_kdf(int a, uint8_t *out, size_t outlen, const uint8_t *key, size_t keylen,
             const uint8_t *custom, size_t customlen);

/* 128-bit big-endian increment */
void ref_nonce_add(uint8_t n[16], uint64_t k);

#ifdef __cplusplus
}
#endif
#endif
