/* See ascon_ref.h.  Naive byte-oriented code; clarity over speed. */
#include "ascon_ref.h"
#include <stdlib.h>
#include <string.h>

/* ------------------------------------------------------------------ */
/* permutation                                                          */

static uint64_t ld64(const uint8_t *p)
{
    uint64_t x = 0;
    for (int i = 0; i < 8; ++i) x = (x << 8) | p[i];
    return x;
}
static void st64(uint8_t *p, uint64_t x)
{
    for (int i = 7; i >= 0; --i) { p[i] = (uint8_t)x; x >>= 8; }
}
static uint64_t ror(uint64_t x, unsigned n) { return (x >> n) | (x << (64 - n)); }

static const uint8_t SBOX[32] = {
    0x04, 0x0b, 0x1f, 0x14, 0x1a, 0x15, 0x09, 0x02, 0x1b, 0x05, 0x08, 0x12,
    0x1d, 0x03, 0x06, 0x1c, 0x1e, 0x13, 0x07, 0x0e, 0x00, 0x0d, 0x11, 0x18,
    0x10, 0x0c, 0x01, 0x19, 0x16, 0x0a, 0x0f, 0x17
};
static const unsigned ROT[5][2] = { {19, 28}, {61, 39}, {1, 6}, {10, 17}, {7, 41} };

static uint64_t round_constant(unsigned i) /* i = 0..11 */
{
    return ((uint64_t)(0xf - i) << 4) | i;
}

static void sbox_table(uint64_t x[5], const uint8_t *tab)
{
    uint64_t y[5] = {0, 0, 0, 0, 0};
    for (unsigned col = 0; col < 64; ++col) {
        unsigned v = 0;
        for (int w = 0; w < 5; ++w)
            v = (v << 1) | (unsigned)((x[w] >> col) & 1); /* x0 is the MSB */
        v = tab[v];
        for (int w = 4; w >= 0; --w) { y[w] |= (uint64_t)(v & 1) << col; v >>= 1; }
    }
    memcpy(x, y, sizeof(y));
}

static void sbox_fast(uint64_t x[5])
{
    uint64_t t[5];
    x[0] ^= x[4]; x[4] ^= x[3]; x[2] ^= x[1];
    for (int i = 0; i < 5; ++i) t[i] = ~x[i] & x[(i + 1) % 5];
    for (int i = 0; i < 5; ++i) x[i] ^= t[(i + 1) % 5];
    x[1] ^= x[0]; x[0] ^= x[4]; x[3] ^= x[2]; x[2] = ~x[2];
}

static void linear(uint64_t x[5])
{
    for (int w = 0; w < 5; ++w)
        x[w] ^= ror(x[w], ROT[w][0]) ^ ror(x[w], ROT[w][1]);
}

static void perm_impl(uint8_t s[40], unsigned rounds, int table)
{
    uint64_t x[5];
    for (int w = 0; w < 5; ++w) x[w] = ld64(s + 8 * w);
    for (unsigned i = 12 - rounds; i < 12; ++i) {
        x[2] ^= round_constant(i);
        if (table) sbox_table(x, SBOX); else sbox_fast(x);
        linear(x);
    }
    for (int w = 0; w < 5; ++w) st64(s + 8 * w, x[w]);
}

void ref_permute(uint8_t s[40], unsigned rounds) { perm_impl(s, rounds, 0); }
void ref_permute_table(uint8_t s[40], unsigned rounds) { perm_impl(s, rounds, 1); }

void ref_permute_inv(uint8_t s[40], unsigned rounds)
{
    uint8_t inv[32];
    uint64_t x[5];
    for (int i = 0; i < 32; ++i) inv[SBOX[i]] = (uint8_t)i;
    for (int w = 0; w < 5; ++w) x[w] = ld64(s + 8 * w);
    for (unsigned r = 0; r < rounds; ++r) {
        unsigned i = 11 - r;
        /* the linear layer L satisfies L^64 = identity in GF(2)[x]/(x^64+1)
         * (it has an odd number of terms), so L^-1 = L^63 */
        for (int k = 0; k < 63; ++k) linear(x);
        sbox_table(x, inv);
        x[2] ^= round_constant(i);
    }
    for (int w = 0; w < 5; ++w) st64(s + 8 * w, x[w]);
}

/* ------------------------------------------------------------------ */
/* AEAD (ASCON v1.2 section 2.4)                                        */

struct aead_par { unsigned klen, rate, a, b; uint8_t iv[8]; unsigned ivlen; };
static const struct aead_par AEAD[3] = {
    { 16, 8, 12, 6, {0x80, 0x40, 0x0c, 0x06, 0, 0, 0, 0}, 8 },
    { 16, 16, 12, 8, {0x80, 0x80, 0x0c, 0x08, 0, 0, 0, 0}, 8 },
    { 20, 8, 12, 6, {0xa0, 0x40, 0x0c, 0x06, 0, 0, 0, 0}, 4 },
};

static void xor_bytes(uint8_t *d, const uint8_t *s, size_t n)
{
    for (size_t i = 0; i < n; ++i) d[i] ^= s[i];
}

static void aead_init(const struct aead_par *p, uint8_t s[40], uint8_t ivtop,
                      const uint8_t *n, const uint8_t *k)
{
    memcpy(s, p->iv, p->ivlen);
    s[0] = ivtop;
    memcpy(s + p->ivlen, k, p->klen);
    memcpy(s + p->ivlen + p->klen, n, 16);
    ref_permute(s, p->a);
    xor_bytes(s + 40 - p->klen, k, p->klen);
}

/* absorb data with 10* padding (always pads, also for empty data) */
static void absorb_padded(uint8_t s[40], unsigned rate, unsigned b, const uint8_t *d, size_t len)
{
    while (len >= rate) {
        xor_bytes(s, d, rate);
        ref_permute(s, b);
        d += rate; len -= rate;
    }
    xor_bytes(s, d, len);
    s[len] ^= 0x80;
    ref_permute(s, b);
}

static void aead_ad(const struct aead_par *p, uint8_t s[40], const uint8_t *ad, size_t adlen)
{
    if (adlen) absorb_padded(s, p->rate, p->b, ad, adlen);
    s[39] ^= 1;
}

static void aead_final(const struct aead_par *p, uint8_t s[40], const uint8_t *k, uint8_t tag[16])
{
    xor_bytes(s + p->rate, k, p->klen);
    ref_permute(s, p->a);
    memcpy(tag, s + 24, 16);
    xor_bytes(tag, k + p->klen - 16, 16);
}

void ref_aead_encrypt(int v, uint8_t *c, const uint8_t *m, size_t mlen,
                      const uint8_t *ad, size_t adlen, const uint8_t *n, const uint8_t *k)
{
    const struct aead_par *p = &AEAD[v];
    uint8_t s[40];
    aead_init(p, s, p->iv[0], n, k);
    aead_ad(p, s, ad, adlen);
    while (mlen >= p->rate) {
        xor_bytes(s, m, p->rate);
        memcpy(c, s, p->rate);
        ref_permute(s, p->b);
        m += p->rate; c += p->rate; mlen -= p->rate;
    }
    xor_bytes(s, m, mlen);
    memcpy(c, s, mlen);
    s[mlen] ^= 0x80;
    aead_final(p, s, k, c + mlen);
}

int ref_aead_decrypt(int v, uint8_t *m, const uint8_t *c, size_t clen,
                     const uint8_t *ad, size_t adlen, const uint8_t *n, const uint8_t *k)
{
    const struct aead_par *p = &AEAD[v];
    uint8_t s[40], tag[16];
    size_t mlen, i;
    if (clen < 16) return -1;
    mlen = clen - 16;
    aead_init(p, s, p->iv[0], n, k);
    aead_ad(p, s, ad, adlen);
    while (mlen >= p->rate) {
        for (i = 0; i < p->rate; ++i) { m[i] = s[i] ^ c[i]; s[i] = c[i]; }
        ref_permute(s, p->b);
        m += p->rate; c += p->rate; mlen -= p->rate;
    }
    for (i = 0; i < mlen; ++i) { m[i] = s[i] ^ c[i]; s[i] = c[i]; }
    s[mlen] ^= 0x80;
    aead_final(p, s, k, tag);
    return memcmp(tag, c + mlen, 16) == 0 ? 0 : -1;
}

/* SIV (doc/siv.dox): pass 1 = AEAD-style authentication of AD and padded
 * plaintext under IV|1; pass 2 = keystream under IV|2 with the tag as nonce. */
void ref_siv_encrypt(int v, uint8_t *c, const uint8_t *m, size_t mlen,
                     const uint8_t *ad, size_t adlen, const uint8_t *n, const uint8_t *k)
{
    const struct aead_par *p = &AEAD[v];
    uint8_t s[40], tag[16];
    size_t off = 0;
    aead_init(p, s, (uint8_t)(p->iv[0] | 1), n, k);
    aead_ad(p, s, ad, adlen);
    /* plaintext is absorbed with padding; the last padded block is NOT followed
     * by p^b in AEAD-style finalisation, so handle it like encryption does */
    {
        const uint8_t *d = m; size_t len = mlen;
        while (len >= p->rate) {
            xor_bytes(s, d, p->rate);
            ref_permute(s, p->b);
            d += p->rate; len -= p->rate;
        }
        xor_bytes(s, d, len);
        s[len] ^= 0x80;
    }
    aead_final(p, s, k, tag);
    aead_init(p, s, (uint8_t)(p->iv[0] | 2), tag, k);
    while (off < mlen) {
        size_t take = mlen - off < p->rate ? mlen - off : p->rate;
        ref_permute(s, p->b);
        for (size_t i = 0; i < take; ++i) c[off + i] = m[off + i] ^ s[i];
        off += take;
    }
    memcpy(c + mlen, tag, 16);
}

/* ------------------------------------------------------------------ */
/* ISAP v2.0 (ISAP-A-128A, ISAP-A-128; 80PQ = same scheme, k = 160)     */

struct isap_par { unsigned klen, sH, sB, sE, sK; };
static const struct isap_par ISAP[3] = {
    { 16, 12, 12, 12, 12 },
    { 16, 12, 1, 6, 12 },
    { 20, 12, 12, 12, 12 },
};

static void isap_iv(const struct isap_par *p, uint8_t iv[8], uint8_t flag)
{
    iv[0] = flag; iv[1] = (uint8_t)(p->klen * 8); iv[2] = 64; iv[3] = 1;
    iv[4] = (uint8_t)p->sH; iv[5] = (uint8_t)p->sB; iv[6] = (uint8_t)p->sE; iv[7] = (uint8_t)p->sK;
}

static void isap_keystate(const struct isap_par *p, uint8_t s[40], const uint8_t *k, uint8_t flag)
{
    memset(s, 0, 40);
    memcpy(s, k, p->klen);
    isap_iv(p, s + p->klen, flag);
    ref_permute(s, p->sK);
}

/* absorb the bits of y one at a time into a state that already holds p_sK(K||IV) */
static void isap_rk_absorb(const struct isap_par *p, uint8_t s[40], const uint8_t *y, unsigned ylen)
{
    unsigned nbits = ylen * 8;
    for (unsigned i = 0; i < nbits; ++i) {
        unsigned bit = (y[i / 8] >> (7 - (i % 8))) & 1;
        s[0] ^= (uint8_t)(bit << 7);
        ref_permute(s, i + 1 < nbits ? p->sB : p->sK);
    }
}

void ref_isap_precompute(int v, uint8_t out[80], const uint8_t *k)
{
    const struct isap_par *p = &ISAP[v];
    isap_keystate(p, out, k, 0x03);       /* K_E */
    isap_keystate(p, out + 40, k, 0x02);  /* K_A */
}

static void isap_mac(const struct isap_par *p, uint8_t tag[16], const uint8_t *k,
                     const uint8_t *n, const uint8_t *ad, size_t adlen,
                     const uint8_t *c, size_t clen)
{
    uint8_t s[40], rk[40], y[20];
    memset(s, 0, 40);
    memcpy(s, n, 16);
    isap_iv(p, s + 16, 0x01);
    ref_permute(s, p->sH);
    absorb_padded(s, 8, p->sH, ad, adlen);
    s[39] ^= 1;
    absorb_padded(s, 8, p->sH, c, clen);
    memcpy(y, s, p->klen);
    isap_keystate(p, rk, k, 0x02);
    isap_rk_absorb(p, rk, y, p->klen);
    memcpy(s, rk, p->klen);
    ref_permute(s, p->sH);
    memcpy(tag, s, 16);
}

void ref_isap_encrypt(int v, uint8_t *c, const uint8_t *m, size_t mlen,
                      const uint8_t *ad, size_t adlen, const uint8_t *n, const uint8_t *k)
{
    const struct isap_par *p = &ISAP[v];
    uint8_t s[40];
    size_t off = 0;
    isap_keystate(p, s, k, 0x03);
    isap_rk_absorb(p, s, n, 16);
    memcpy(s + 24, n, 16);
    while (off < mlen) {
        size_t take = mlen - off < 8 ? mlen - off : 8;
        ref_permute(s, p->sE);
        for (size_t i = 0; i < take; ++i) c[off + i] = m[off + i] ^ s[i];
        off += take;
    }
    isap_mac(p, c + mlen, k, n, ad, adlen, c, mlen);
}

/* ------------------------------------------------------------------ */
/* hashing / XOF / cXOF                                                 */

void ref_cxof(int a, uint8_t *out, size_t outlen, uint64_t declared,
              const uint8_t *name, size_t namelen,
              const uint8_t *custom, size_t customlen,
              const uint8_t *in, size_t inlen)
{
    uint8_t s[40];
    unsigned b = a ? 8 : 12;
    size_t off = 0;
    memset(s, 0, 40);
    /* IV: 0x00 | rate 64 | a = 12 | a - b | 32-bit output length in bits */
    s[0] = 0x00; s[1] = 0x40; s[2] = 0x0c; s[3] = (uint8_t)(12 - b);
    s[4] = (uint8_t)((declared * 8) >> 24); s[5] = (uint8_t)((declared * 8) >> 16);
    s[6] = (uint8_t)((declared * 8) >> 8);  s[7] = (uint8_t)(declared * 8);
    if (namelen > 32)
        ref_hash(a, s + 8, name, namelen);
    else if (namelen)
        memcpy(s + 8, name, namelen);
    ref_permute(s, 12);
    if (customlen) {
        absorb_padded(s, 8, b, custom, customlen);
        s[39] ^= 1;
    }
    /* message: all but the final padded block use p^b, the final one p^a = 12 */
    while (inlen >= 8) {
        xor_bytes(s, in, 8);
        ref_permute(s, b);
        in += 8; inlen -= 8;
    }
    xor_bytes(s, in, inlen);
    s[inlen] ^= 0x80;
    ref_permute(s, 12);
    while (off < outlen) {
        size_t take = outlen - off < 8 ? outlen - off : 8;
        memcpy(out + off, s, take);
        off += take;
        if (off < outlen) ref_permute(s, b);
    }
}

void ref_hash(int a, uint8_t out[32], const uint8_t *in, size_t inlen)
{
    ref_cxof(a, out, 32, 32, 0, 0, 0, 0, in, inlen);
}
void ref_xof(int a, uint8_t *out, size_t outlen, const uint8_t *in, size_t inlen)
{
    ref_cxof(a, out, outlen, 0, 0, 0, 0, 0, in, inlen);
}

static uint8_t *cat2(const uint8_t *a, size_t al, const uint8_t *b, size_t bl)
{
    uint8_t *p = (uint8_t *)malloc(al + bl + 1);
    if (al) memcpy(p, a, al);
    if (bl) memcpy(p + al, b, bl);
    return p;
}

void ref_kmac(int a, uint8_t *out, size_t outlen, const uint8_t *key, size_t keylen,
              const uint8_t *in, size_t inlen, const uint8_t *custom, size_t customlen)
{
    uint8_t *x = cat2(key, keylen, in, inlen);
    uint64_t declared = outlen >= ((uint64_t)1 << 29) ? 0 : outlen;
    ref_cxof(a, out, outlen, declared, (const uint8_t *)"KMAC", 4, custom, customlen, x, keylen + inlen);
    free(x);
}

void ref_kdf(int a, uint8_t *out, size_t outlen, const uint8_t *key, size_t keylen,
             const uint8_t *custom, size_t customlen)
{
    uint64_t declared = outlen >= ((uint64_t)1 << 29) ? 0 : outlen;
    ref_cxof(a, out, outlen, declared, (const uint8_t *)"KDF", 3, custom, customlen, key, keylen);
}

/* ------------------------------------------------------------------ */
/* ASCON-PRF / MAC / PrfShort                                            */

void ref_prf(uint8_t *out, size_t outlen, uint64_t declared,
             const uint8_t *in, size_t inlen, const uint8_t key[16])
{
    uint8_t s[40];
    size_t off = 0;
    memset(s, 0, 40);
    /* IV = k(8 bits) | r_o(8) | 1||a (8) | 0 (8) | t (32) */
    s[0] = 128; s[1] = 128; s[2] = 0x80 | 12; s[3] = 0;
    s[4] = (uint8_t)((declared * 8) >> 24); s[5] = (uint8_t)((declared * 8) >> 16);
    s[6] = (uint8_t)((declared * 8) >> 8);  s[7] = (uint8_t)(declared * 8);
    memcpy(s + 8, key, 16);
    ref_permute(s, 12);
    while (inlen >= 32) {
        xor_bytes(s, in, 32);
        ref_permute(s, 12);
        in += 32; inlen -= 32;
    }
    xor_bytes(s, in, inlen);
    s[inlen] ^= 0x80;
    s[39] ^= 1;
    while (off < outlen) {
        size_t take = outlen - off < 16 ? outlen - off : 16;
        ref_permute(s, 12);
        memcpy(out + off, s, take);
        off += take;
    }
}

void ref_mac(uint8_t tag[16], const uint8_t *in, size_t inlen, const uint8_t key[16])
{
    ref_prf(tag, 16, 16, in, inlen, key);
}

void ref_prf_short(uint8_t out[16], const uint8_t *in, size_t inlen, const uint8_t key[16])
{
    uint8_t s[40];
    memset(s, 0, 40);
    /* IV = k | m (input bits) | 1||a | t = 128 | 0^32 */
    s[0] = 128; s[1] = (uint8_t)(inlen * 8); s[2] = 0x40 | 12; s[3] = 128;
    memcpy(s + 8, key, 16);
    memcpy(s + 24, in, inlen);
    ref_permute(s, 12);
    memcpy(out, s + 24, 16);
    xor_bytes(out, key, 16);
}

/* ------------------------------------------------------------------ */
/* HMAC / HKDF / PBKDF2                                                 */

void ref_hmac(int a, uint8_t out[32], const uint8_t *key, size_t keylen, const uint8_t *in, size_t inlen)
{
    uint8_t k0[64], inner[32];
    uint8_t *buf = (uint8_t *)malloc(64 + (inlen > 32 ? inlen : 32));
    memset(k0, 0, 64);
    if (keylen > 64) ref_hash(a, k0, key, keylen);
    else if (keylen) memcpy(k0, key, keylen);
    for (int i = 0; i < 64; ++i) buf[i] = k0[i] ^ 0x36;
    if (inlen) memcpy(buf + 64, in, inlen);
    ref_hash(a, inner, buf, 64 + inlen);
    for (int i = 0; i < 64; ++i) buf[i] = k0[i] ^ 0x5c;
    memcpy(buf + 64, inner, 32);
    ref_hash(a, out, buf, 96);
    free(buf);
}

int ref_hkdf(int a, uint8_t *out, size_t outlen, const uint8_t *key, size_t keylen,
             const uint8_t *salt, size_t saltlen, const uint8_t *info, size_t infolen)
{
    uint8_t prk[32], t[32];
    uint8_t *buf;
    size_t tlen = 0, off = 0;
    unsigned i = 1;
    if (outlen > 255 * 32) return -1;
    ref_hmac(a, prk, salt, saltlen, key, keylen); /* RFC 5869: empty salt == HashLen zeros == same HMAC key */
    buf = (uint8_t *)malloc(32 + infolen + 1);
    while (off < outlen) {
        size_t take = outlen - off < 32 ? outlen - off : 32;
        memcpy(buf, t, tlen);
        if (infolen) memcpy(buf + tlen, info, infolen);
        buf[tlen + infolen] = (uint8_t)i++;
        ref_hmac(a, t, prk, 32, buf, tlen + infolen + 1);
        tlen = 32;
        memcpy(out + off, t, take);
        off += take;
    }
    free(buf);
    return 0;
}

typedef void (*prf_fn)(uint8_t out[32], const uint8_t *pw, size_t pwlen, const uint8_t *x, size_t xlen);

static void prf_hmac(uint8_t out[32], const uint8_t *pw, size_t pwlen, const uint8_t *x, size_t xlen)
{
    ref_hmac(0, out, pw, pwlen, x, xlen);
}
static void prf_cxof(uint8_t out[32], const uint8_t *pw, size_t pwlen, const uint8_t *x, size_t xlen)
{
    /* PRF(P, X) = ASCON-cXOF(X, 256, "PBKDF2", P) */
    ref_cxof(0, out, 32, 32, (const uint8_t *)"PBKDF2", 6, pw, pwlen, x, xlen);
}

static void pbkdf2_generic(prf_fn prf, uint8_t *out, size_t outlen, const uint8_t *pw, size_t pwlen,
                           const uint8_t *salt, size_t saltlen, unsigned long count)
{
    uint8_t *buf = (uint8_t *)malloc(saltlen + 4);
    uint32_t block = 1;
    size_t off = 0;
    if (count == 0) count = 1;
    while (off < outlen) {
        uint8_t u[32], t[32];
        size_t take = outlen - off < 32 ? outlen - off : 32;
        if (saltlen) memcpy(buf, salt, saltlen);
        buf[saltlen] = (uint8_t)(block >> 24); buf[saltlen + 1] = (uint8_t)(block >> 16);
        buf[saltlen + 2] = (uint8_t)(block >> 8); buf[saltlen + 3] = (uint8_t)block;
        prf(u, pw, pwlen, buf, saltlen + 4);
        memcpy(t, u, 32);
        for (unsigned long c = 1; c < count; ++c) {
            uint8_t u2[32];
            prf(u2, pw, pwlen, u, 32);
            memcpy(u, u2, 32);
            xor_bytes(t, u, 32);
        }
        memcpy(out + off, t, take);
        off += take;
        ++block;
    }
    free(buf);
}

void ref_pbkdf2_hmac(uint8_t *out, size_t outlen, const uint8_t *pw, size_t pwlen,
                     const uint8_t *salt, size_t saltlen, unsigned long count)
{
    pbkdf2_generic(prf_hmac, out, outlen, pw, pwlen, salt, saltlen, count);
}
void ref_pbkdf2(uint8_t *out, size_t outlen, const uint8_t *pw, size_t pwlen,
                const uint8_t *salt, size_t saltlen, unsigned long count)
{
    pbkdf2_generic(prf_cxof, out, outlen, pw, pwlen, salt, saltlen, count);
}

void ref_nonce_add(uint8_t n[16], uint64_t k)
{
    /* schoolbook addition, big-endian, wrapping at 2^128 */
    for (int i = 15; i >= 0 && k; --i) {
        uint64_t v = (uint64_t)n[i] + (k & 0xff);
        n[i] = (uint8_t)v;
        k = (k >> 8) + (v >> 8);
    }
}
