/* Self-test of the reference model against the pinned vectors in
 * ref/kat_pinned (a subsample of the pinned tree's test/kat, which for the
 * NIST / ISAP / PRF algorithms are the official submission vectors).
 * usage: selftest <dir>   -> exit 0 and "REF-SELFTEST ok vectors=N" on success */
#include "ascon_ref.h"
#include <stdio.h>
#include <stdlib.h>
#include <string.h>

#define MAXF 8
struct rec { char name[MAXF][16]; uint8_t *val[MAXF]; size_t len[MAXF]; int n; };

static int hexv(int c) { return c <= '9' ? c - '0' : (c | 32) - 'a' + 10; }

static const uint8_t *fld(const struct rec *r, const char *n, size_t *len)
{
    for (int i = 0; i < r->n; ++i)
        if (!strcmp(r->name[i], n)) { *len = r->len[i]; return r->val[i]; }
    *len = 0;
    return 0;
}

static long total = 0, bad = 0;

static void check(const char *file, long count, const uint8_t *got, const uint8_t *exp, size_t n)
{
    ++total;
    if (memcmp(got, exp, n) != 0) {
        ++bad;
        fprintf(stderr, "REF MISMATCH %s Count=%ld\n", file, count);
    }
}

static void run(const char *file, long count, const struct rec *r)
{
    size_t kl, nl, pl, al, cl, ml, dl, tl, ul;
    const uint8_t *k = fld(r, "Key", &kl), *n = fld(r, "Nonce", &nl), *pt = fld(r, "PT", &pl),
                  *ad = fld(r, "AD", &al), *ct = fld(r, "CT", &cl), *msg = fld(r, "Msg", &ml),
                  *md = fld(r, "MD", &dl), *tag = fld(r, "Tag", &tl), *cu = fld(r, "Custom", &ul);
    uint8_t *out = (uint8_t *)malloc(pl + ml + dl + tl + 64);
    (void)nl; (void)n;
    if (!strcmp(file, "ASCON-128.txt") || !strcmp(file, "ASCON-128a.txt") || !strcmp(file, "ASCON-80pq.txt")) {
        int v = !strcmp(file, "ASCON-128.txt") ? 0 : !strcmp(file, "ASCON-128a.txt") ? 1 : 2;
        uint8_t *m2 = (uint8_t *)malloc(pl + 1);
        ref_aead_encrypt(v, out, pt, pl, ad, al, n, k);
        check(file, count, out, ct, cl);
        if (ref_aead_decrypt(v, m2, ct, cl, ad, al, n, k) != 0 || memcmp(m2, pt, pl)) { ++bad; fprintf(stderr, "REF DECRYPT %s %ld\n", file, count); }
        free(m2);
    } else if (strstr(file, "-SIV.txt")) {
        int v = !strncmp(file, "ASCON-128-", 10) ? 0 : !strncmp(file, "ASCON-128a-", 11) ? 1 : 2;
        ref_siv_encrypt(v, out, pt, pl, ad, al, n, k);
        check(file, count, out, ct, cl);
    } else if (!strncmp(file, "ISAP-A-", 7)) {
        int v = !strcmp(file, "ISAP-A-128.txt") ? 0 : !strcmp(file, "ISAP-A-128A.txt") ? 1 : 2;
        ref_isap_encrypt(v, out, pt, pl, ad, al, n, k);
        check(file, count, out, ct, cl);
    } else if (!strcmp(file, "ASCON-HASH.txt") || !strcmp(file, "ASCON-HASHA.txt")) {
        ref_hash(!strcmp(file, "ASCON-HASHA.txt"), out, msg, ml);
        check(file, count, out, md, 32);
    } else if (!strncmp(file, "ASCON-XOFA", 10) || !strncmp(file, "ASCON-XOF", 9)) {
        ref_xof(!strncmp(file, "ASCON-XOFA", 10), out, dl, msg, ml);
        check(file, count, out, md, dl);
    } else if (!strcmp(file, "ASCON-HMAC.txt") || !strcmp(file, "ASCON-HMACA.txt")) {
        ref_hmac(!strcmp(file, "ASCON-HMACA.txt"), out, k, kl, msg, ml);
        check(file, count, out, tag, 32);
    } else if (!strcmp(file, "ASCON-KMAC.txt") || !strcmp(file, "ASCON-KMACA.txt")) {
        ref_kmac(!strcmp(file, "ASCON-KMACA.txt"), out, tl, k, kl, msg, ml, cu, ul);
        check(file, count, out, tag, tl);
    } else if (!strcmp(file, "ASCON-Mac.txt")) {
        ref_mac(out, msg, ml, k);
        check(file, count, out, tag, 16);
    } else if (!strcmp(file, "ASCON-Prf.txt") || !strcmp(file, "ASCON-Prf-long-output.txt")) {
        ref_prf(out, tl, 0, msg, ml, k);
        check(file, count, out, tag, tl);
    } else if (!strcmp(file, "ASCON-PrfShort.txt")) {
        ref_prf_short(out, msg, ml, k);
        check(file, count, out, tag, 16);
    } else {
        fprintf(stderr, "REF unknown file %s\n", file);
        ++bad;
    }
    free(out);
}

static void do_file(const char *dir, const char *file)
{
    char path[1024], *line = 0;
    size_t cap = 0;
    struct rec r;
    long count = 0;
    FILE *f;
    snprintf(path, sizeof(path), "%s/%s", dir, file);
    f = fopen(path, "r");
    if (!f) { fprintf(stderr, "REF cannot open %s\n", path); ++bad; return; }
    memset(&r, 0, sizeof(r));
    for (;;) {
        ssize_t got = getline(&line, &cap, f);
        int blank = got <= 0 || line[0] == '\n' || line[0] == '\r';
        if (blank) {
            if (r.n) { run(file, count, &r); for (int i = 0; i < r.n; ++i) free(r.val[i]); }
            memset(&r, 0, sizeof(r));
            if (got <= 0) break;
            continue;
        }
        char *eq = strstr(line, " = ");
        if (!eq) continue;
        *eq = 0;
        if (!strcmp(line, "Count")) { count = atol(eq + 3); continue; }
        if (r.n >= MAXF) continue;
        const char *h = eq + 3;
        size_t hl = strlen(h);
        while (hl && (h[hl - 1] == '\n' || h[hl - 1] == '\r' || h[hl - 1] == ' ')) --hl;
        snprintf(r.name[r.n], sizeof(r.name[r.n]), "%s", line);
        r.val[r.n] = (uint8_t *)malloc(hl / 2 + 1);
        r.len[r.n] = hl / 2;
        for (size_t i = 0; i < hl / 2; ++i) r.val[r.n][i] = (uint8_t)(hexv(h[2 * i]) << 4 | hexv(h[2 * i + 1]));
        ++r.n;
    }
    free(line);
    fclose(f);
}

static const uint8_t PERM_IN[40] = {
    0, 1, 2, 3, 4, 5, 6, 7, 8, 9, 10, 11, 12, 13, 14, 15, 16, 17, 18, 19,
    20, 21, 22, 23, 24, 25, 26, 27, 28, 29, 30, 31, 32, 33, 34, 35, 36, 37, 38, 39 };
static const uint8_t PERM_12[40] = {
    0x06, 0x05, 0x87, 0xe2, 0xd4, 0x89, 0xdd, 0x43, 0x1c, 0xc2, 0xb1, 0x7b, 0x0e, 0x3c, 0x17, 0x64,
    0x95, 0x73, 0x42, 0x53, 0x18, 0x44, 0xa6, 0x74, 0x96, 0xb1, 0x71, 0x75, 0xb4, 0xcb, 0x68, 0x63,
    0x29, 0xb5, 0x12, 0xd6, 0x27, 0xd9, 0x06, 0xe5 };
static const uint8_t PERM_8[40] = {
    0x83, 0x0d, 0x26, 0x0d, 0x33, 0x5f, 0x3b, 0xed, 0xda, 0x0b, 0xba, 0x91, 0x7b, 0xcf, 0xca, 0xd7,
    0xdd, 0x0d, 0x88, 0xe7, 0xdc, 0xb5, 0xec, 0xd0, 0x89, 0x2a, 0x02, 0x15, 0x1f, 0x95, 0x94, 0x6e,
    0x3a, 0x69, 0xcb, 0x3c, 0xf9, 0x82, 0xf6, 0xf7 };

int main(int argc, char **argv)
{
    static const char *files[] = {
        "ASCON-128.txt", "ASCON-128a.txt", "ASCON-80pq.txt", "ASCON-128-SIV.txt", "ASCON-128a-SIV.txt",
        "ASCON-80pq-SIV.txt", "ISAP-A-128.txt", "ISAP-A-128A.txt", "ISAP-A-80PQ.txt", "ASCON-HASH.txt",
        "ASCON-HASHA.txt", "ASCON-XOF.txt", "ASCON-XOFA.txt", "ASCON-XOF-long-output.txt",
        "ASCON-XOFA-long-output.txt", "ASCON-HMAC.txt", "ASCON-HMACA.txt", "ASCON-KMAC.txt",
        "ASCON-KMACA.txt", "ASCON-Mac.txt", "ASCON-Prf.txt", "ASCON-Prf-long-output.txt", "ASCON-PrfShort.txt" };
    uint8_t s[40], t[40];
    uint64_t x = 88172645463325252ULL;
    if (argc < 2) return 2;
    memcpy(s, PERM_IN, 40); ref_permute(s, 12); check("perm12", 0, s, PERM_12, 40);
    memcpy(s, PERM_IN, 40); ref_permute(s, 8); check("perm8", 0, s, PERM_8, 40);
    memcpy(s, PERM_IN, 40); ref_permute_table(s, 12); check("perm12-table", 0, s, PERM_12, 40);
    /* fast S-box == table S-box, inverse is an inverse, round-count composition */
    for (int i = 0; i < 3000; ++i) {
        unsigned r = (unsigned)(i % 13);
        for (int j = 0; j < 40; ++j) { x ^= x << 13; x ^= x >> 7; x ^= x << 17; s[j] = (uint8_t)(x >> 11); }
        if (i < 8) memset(s, i & 1 ? 0xff : 0, 40);
        memcpy(t, s, 40);
        ref_permute(s, r); ref_permute_table(t, r);
        check("fast-vs-table", i, s, t, 40);
        ref_permute_inv(s, r);
        ref_permute_table(t, 0);
        {   uint8_t u[40]; memcpy(u, t, 40); ref_permute_inv(u, r); check("inverse", i, s, u, 40); }
        if (r >= 2) { /* p^r == p^(r-2) applied after the first two of the r rounds: check via inverse of tail */
            uint8_t a[40], b[40];
            memcpy(a, s, 40); memcpy(b, s, 40);
            ref_permute(a, r);
            ref_permute(b, r); ref_permute_inv(b, r - 2); ref_permute(b, r - 2);
            check("compose", i, a, b, 40);
        }
    }
    for (size_t i = 0; i < sizeof(files) / sizeof(files[0]); ++i) do_file(argv[1], files[i]);
    /* 128-bit add */
    {   uint8_t n[16]; memset(n, 0xff, 16); ref_nonce_add(n, 1);
        memset(t, 0, 16); check("nonce-wrap", 0, n, t, 16);
        memset(n, 0, 16); n[15] = 0xff; n[14] = 0xff; ref_nonce_add(n, 2);
        memset(t, 0, 16); t[13] = 1; t[15] = 1; check("nonce-carry", 0, n, t, 16); }
    if (bad || total < 2500) { printf("REF-SELFTEST FAILED bad=%ld total=%ld\n", bad, total); return 1; }
    printf("REF-SELFTEST ok vectors=%ld\n", total);
    return 0;
}
