"""Xtensa LX interpreter (call0 and windowed ABI prologue/epilogue): the subset emitted by tools/genxtensa plus the rest of the core
integer ISA a rewrite could use (all compare-and-branch forms, shifts through SAR and immediate shifts, narrow loads/stores,
extui, neg/abs, addx/subx, conditional moves).  Anything else is Unsupported (inconclusive), never guessed."""
import re
from emucore import Memory, Unsupported, Violation, parse_int, STATE_BASE, STACK_TOP, STACK_SIZE, RET_SENTINEL

M = 0xffffffff


class Xtensa:
    def __init__(self, windowed):
        self.windowed = windowed

    def reg(self, s):
        s = s.strip().lower()
        if s == 'sp':
            return 1
        m = re.fullmatch(r'a(\d+)', s)
        if not m or int(m.group(1)) > 15:
            raise Unsupported('register %r' % s)
        return int(m.group(1))

    def call(self, prog, entry, state_mem, first_round, max_insn=200000):
        mem = Memory(big_endian=False)
        mem.add('state', STATE_BASE, state_mem)
        mem.add('stack', STACK_TOP - STACK_SIZE, bytes(STACK_SIZE))
        a = [(0x5a5a0000 + r * 0x01010101) & M for r in range(16)]
        sent = list(a)
        a[1] = sent[1] = STACK_TOP
        a[0] = RET_SENTINEL
        a[2], a[3] = STATE_BASE, first_round
        sar = 0
        pc = prog.labels[entry]
        n = 0
        problems = []
        entered = False
        while True:
            if n >= max_insn:
                raise Violation('no-return', 'more than %d instructions executed' % max_insn)
            if pc < 0 or pc >= len(prog.insns):
                raise Violation('control-flow', 'execution ran off the code')
            mn, ops, src = prog.insns[pc]
            n += 1
            npc = pc + 1
            if mn in ('xor', 'and', 'or', 'add', 'sub'):
                x, y = a[self.reg(ops[1])], a[self.reg(ops[2])]
                v = x ^ y if mn == 'xor' else x & y if mn == 'and' else x | y if mn == 'or' else x + y if mn == 'add' else x - y
                a[self.reg(ops[0])] = v & M
            elif mn in ('addx2', 'addx4', 'addx8', 'subx2', 'subx4', 'subx8'):
                x, y = a[self.reg(ops[1])], a[self.reg(ops[2])]
                k = int(mn[-1])
                a[self.reg(ops[0])] = ((x * k) + y if mn.startswith('add') else (x * k) - y) & M
            elif mn in ('neg', 'abs'):
                y = a[self.reg(ops[1])]
                sy = y - (1 << 32) if y >> 31 else y
                a[self.reg(ops[0])] = (-sy if mn == 'neg' else abs(sy)) & M
            elif mn in ('slli', 'srli', 'srai'):
                x, sh = a[self.reg(ops[1])], parse_int(ops[2])
                if not (1 <= sh <= 31 if mn == 'slli' else 0 <= sh <= (15 if mn == 'srli' else 31)):
                    raise Violation('encoding', 'shift amount %d not encodable in: %s' % (sh, src))
                sx_ = x - (1 << 32) if x >> 31 else x
                a[self.reg(ops[0])] = ((x << sh) if mn == 'slli' else (x >> sh) if mn == 'srli' else (sx_ >> sh)) & M
            elif mn in ('ssl', 'ssr'):
                v = a[self.reg(ops[0])] & 31
                sar = (32 - v) if mn == 'ssl' else v
            elif mn in ('ssa8l', 'ssa8b'):
                v = (a[self.reg(ops[0])] & 3) * 8
                sar = v if mn == 'ssa8l' else 32 - v
            elif mn in ('sll', 'srl', 'sra'):
                x = a[self.reg(ops[1])]
                if mn == 'sll':
                    a[self.reg(ops[0])] = (x << (32 - sar)) & M if sar <= 32 else 0
                elif mn == 'srl':
                    a[self.reg(ops[0])] = (x >> sar) & M if sar < 32 else 0
                else:
                    sx_ = x - (1 << 32) if x >> 31 else x
                    a[self.reg(ops[0])] = (sx_ >> min(sar, 31)) & M
            elif mn == 'extui':
                x, sh, w = a[self.reg(ops[1])], parse_int(ops[2]), parse_int(ops[3])
                if not (0 <= sh <= 31 and 1 <= w <= 16):
                    raise Violation('encoding', 'extui operands not encodable in: %s' % src)
                a[self.reg(ops[0])] = (x >> sh) & ((1 << w) - 1)
            elif mn in ('moveqz', 'movnez', 'movltz', 'movgez'):
                t = a[self.reg(ops[2])]
                st = t - (1 << 32) if t >> 31 else t
                if {'moveqz': st == 0, 'movnez': st != 0, 'movltz': st < 0, 'movgez': st >= 0}[mn]:
                    a[self.reg(ops[0])] = a[self.reg(ops[1])]
            elif mn in ('nop', 'nop.n', '_nop'):
                pass
            elif mn == 'src':
                hi, lo = a[self.reg(ops[1])], a[self.reg(ops[2])]
                a[self.reg(ops[0])] = (((hi << 32) | lo) >> sar) & M
            elif mn == 'ssai':
                sar = parse_int(ops[0])
                if not 0 <= sar <= 31:
                    raise Violation('encoding', 'ssai %d out of range' % sar)
            elif mn in ('movi', 'movi.n'):
                imm = parse_int(ops[1])
                lo, hi = (-32, 95) if mn == 'movi.n' else (-2048, 2047)
                if not lo <= imm <= hi:
                    raise Violation('encoding', 'immediate %d out of range in: %s' % (imm, src))
                a[self.reg(ops[0])] = imm & M
            elif mn in ('mov', 'mov.n'):
                a[self.reg(ops[0])] = a[self.reg(ops[1])]
            elif mn in ('addi', 'addi.n'):
                a[self.reg(ops[0])] = (a[self.reg(ops[1])] + parse_int(ops[2])) & M
            elif mn in ('l32i', 'l32i.n', 's32i', 's32i.n', 'l8ui', 's8i', 'l16ui', 'l16si', 's16i'):
                size = 4 if '32' in mn else 2 if '16' in mn else 1
                addr = (a[self.reg(ops[1])] + parse_int(ops[2])) & M
                if addr % size:
                    raise Violation('misaligned-access', '%s at 0x%x' % (src, addr))
                if STACK_TOP - STACK_SIZE <= addr < a[1]:
                    raise Violation('access-below-stack-pointer', '%s touches 0x%x while sp = 0x%x' % (src, addr, a[1]))
                if mn.startswith('l'):
                    v = mem.load(addr, size, src)
                    if mn == 'l16si' and v >> 15:
                        v |= 0xffff0000
                    a[self.reg(ops[0])] = v
                else:
                    if STACK_TOP <= addr < STACK_TOP + 0x1000:
                        raise Violation('write-outside-allowed-memory', '%s stores above the entry stack pointer (caller frame)' % src)
                    mem.store(addr, size, a[self.reg(ops[0])] & ((1 << (8 * size)) - 1), src)
            elif mn in ('beqi', 'bnei', 'beq', 'bne', 'beqz', 'bnez', 'beqz.n', 'bnez.n'):
                x = a[self.reg(ops[0])]
                if mn in ('beqi', 'bnei'):
                    imm = parse_int(ops[1])
                    if imm not in (-1, 1, 2, 3, 4, 5, 6, 7, 8, 10, 12, 16, 32, 64, 128, 256):
                        raise Violation('encoding', 'b4const %d not encodable in: %s' % (imm, src))
                    y = imm & M
                elif mn in ('beq', 'bne'):
                    y = a[self.reg(ops[1])]
                else:
                    y = 0
                eq = x == y
                take = eq if mn.startswith('beq') else not eq
                tgt = ops[-1]
                if tgt not in prog.labels:
                    raise Unsupported('branch target %r' % tgt)
                if take:
                    npc = prog.labels[tgt]
            elif mn in ('blt', 'bge', 'bltu', 'bgeu', 'blti', 'bgei', 'bltui', 'bgeui', 'bltz', 'bgez', 'bany', 'bnone', 'ball', 'bnall', 'bbci', 'bbsi', 'bbc', 'bbs'):
                x = a[self.reg(ops[0])]
                sx_ = x - (1 << 32) if x >> 31 else x
                if mn in ('bltz', 'bgez'):
                    take = sx_ < 0 if mn == 'bltz' else sx_ >= 0
                elif mn in ('blti', 'bgei', 'bltui', 'bgeui'):
                    imm = parse_int(ops[1])
                    ok = (-1, 1, 2, 3, 4, 5, 6, 7, 8, 10, 12, 16, 32, 64, 128, 256) if mn in ('blti', 'bgei') else (32768, 65536, 2, 3, 4, 5, 6, 7, 8, 10, 12, 16, 32, 64, 128, 256)
                    if imm not in ok:
                        raise Violation('encoding', 'branch constant %d not encodable in: %s' % (imm, src))
                    take = {'blti': sx_ < imm, 'bgei': sx_ >= imm, 'bltui': x < imm, 'bgeui': x >= imm}[mn]
                elif mn in ('bbci', 'bbsi'):
                    bit = (x >> parse_int(ops[1])) & 1          # little-endian bit numbering (all supported cores are LE)
                    take = bit == (1 if mn == 'bbsi' else 0)
                else:
                    y = a[self.reg(ops[1])]
                    sy = y - (1 << 32) if y >> 31 else y
                    if mn in ('bbc', 'bbs'):
                        bit = (x >> (y & 31)) & 1
                        take = bit == (1 if mn == 'bbs' else 0)
                    else:
                        take = {'blt': sx_ < sy, 'bge': sx_ >= sy, 'bltu': x < y, 'bgeu': x >= y, 'bany': (x & y) != 0, 'bnone': (x & y) == 0,
                                'ball': (~x & y & M) == 0, 'bnall': (~x & y & M) != 0}[mn]
                tgt = ops[-1]
                if tgt not in prog.labels:
                    raise Unsupported('branch target %r' % tgt)
                if take:
                    npc = prog.labels[tgt]
            elif mn == 'j':
                if ops[0] not in prog.labels:
                    raise Unsupported('jump target %r' % ops[0])
                npc = prog.labels[ops[0]]
            elif mn == 'entry':
                if not self.windowed or n != 1:
                    raise Violation('abi', 'entry instruction in a call0 build or not first')
                a[1] = (a[1] - parse_int(ops[1])) & M
                entered = True
            elif mn in ('retw', 'retw.n'):
                if not entered:
                    problems.append(('abi', 'retw without entry'))
                a[1] = sent[1]          # the window rotation restores the caller's registers
                for r in range(4, 16):
                    a[r] = sent[r]
                break
            elif mn in ('ret', 'ret.n'):
                if self.windowed:
                    problems.append(('abi', 'ret in a windowed-ABI function'))
                if a[0] != RET_SENTINEL:
                    problems.append(('return-address', 'ret jumps to 0x%x (a0 clobbered)' % a[0]))
                break
            else:
                raise Unsupported('mnemonic %r in: %s' % (mn, src))
            pc = npc
        for r in (1, 12, 13, 14, 15):
            if a[r] != sent[r]:
                problems.append(('callee-saved-a%d' % r, 'a%d = 0x%x on return, 0x%x on entry' % (r, a[r], sent[r])))
        frame = 0 if mem.frame_low is None else STACK_TOP - mem.frame_low
        return bytes(mem.region('state')[2]), problems, n, frame


def targets():
    return [
        dict(name='xtensa-call0', file='src/core/ascon-asm-xtensa.S', defines=['__XTENSA__=1'], layout='sliced64', big=False, engine=Xtensa(False), comment='#', insn_size=3),
        dict(name='xtensa-windowed', file='src/core/ascon-asm-xtensa.S', defines=['__XTENSA__=1', '__XTENSA_WINDOWED_ABI__=1'], layout='sliced64', big=False,
             engine=Xtensa(True), comment='#', insn_size=3),
    ]
