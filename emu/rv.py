"""RISC-V (RV32E / RV32I / RV64I) interpreter: the subset the generators emit plus the rest of the base integer ISA and the
usual assembler pseudo-instructions (all conditional branches, register shifts, set-less-than, byte/half loads and stores,
the RV64 *w forms), so that a rewrite of the same function is decided, not left inconclusive.  No M/A/C extensions."""
import re
from emucore import Memory, Program, Unsupported, Violation, parse_int, STATE_BASE, STACK_TOP, STACK_SIZE, RET_SENTINEL

NAMES = ['zero', 'ra', 'sp', 'gp', 'tp', 't0', 't1', 't2', 's0', 's1', 'a0', 'a1', 'a2', 'a3', 'a4', 'a5', 'a6', 'a7',
         's2', 's3', 's4', 's5', 's6', 's7', 's8', 's9', 's10', 's11', 't3', 't4', 't5', 't6']
REG = {n: i for i, n in enumerate(NAMES)}
REG.update({'x%d' % i: i for i in range(32)})
REG['fp'] = 8
CALLEE_SAVED = [2, 3, 4, 8, 9] + list(range(18, 28))      # sp, gp, tp, s0, s1, s2..s11


class RV:
    def __init__(self, xlen, embedded=False):
        self.xlen, self.embedded = xlen, embedded
        self.mask = (1 << xlen) - 1
        self.nregs = 16 if embedded else 32

    def reg(self, name):
        name = name.strip()
        if name not in REG:
            raise Unsupported('register %r' % name)
        r = REG[name]
        if r >= self.nregs:
            raise Violation('illegal-register', 'register %s does not exist on RV32E' % name)
        return r

    def sx(self, v, bits):
        v &= (1 << bits) - 1
        return v - (1 << bits) if v >> (bits - 1) else v

    def memop(self, s):
        m = re.fullmatch(r'(-?\w*)\((\w+)\)', s.replace(' ', ''))
        if not m:
            raise Unsupported('memory operand %r' % s)
        return (parse_int(m.group(1)) if m.group(1) else 0), self.reg(m.group(2))

    def call(self, prog, entry, state_mem, first_round, max_insn=200000):
        """returns (state bytes after, problems list, instructions executed, frame bytes used)"""
        mem = Memory(big_endian=False)
        mem.add('state', STATE_BASE, state_mem)
        mem.add('stack', STACK_TOP - STACK_SIZE, bytes(STACK_SIZE))
        x = [0] * 32
        sent = {}
        for r in range(1, 32):
            x[r] = (0x5a5a0000 + r * 0x01010101) & self.mask
            sent[r] = x[r]
        x[2] = STACK_TOP
        x[1] = RET_SENTINEL
        x[10] = STATE_BASE
        x[11] = first_round
        sent[2] = x[2]
        pc = prog.labels[entry]
        n = 0
        M = self.mask
        problems = []
        while True:
            if n >= max_insn:
                raise Violation('no-return', 'more than %d instructions executed' % max_insn)
            if pc < 0 or pc >= len(prog.insns):
                raise Violation('control-flow', 'execution ran off the code at index %d' % pc)
            mn, ops, src = prog.insns[pc]
            n += 1
            npc = pc + 1
            if mn in ('xor', 'and', 'or', 'add', 'sub'):
                a, b = x[self.reg(ops[1])], x[self.reg(ops[2])]
                v = a ^ b if mn == 'xor' else a & b if mn == 'and' else a | b if mn == 'or' else a + b if mn == 'add' else a - b
                rd = self.reg(ops[0])
            elif mn in ('sll', 'srl', 'sra'):
                a, sh = x[self.reg(ops[1])], x[self.reg(ops[2])] & (self.xlen - 1)
                v = (a << sh) if mn == 'sll' else (a >> sh) if mn == 'srl' else (self.sx(a, self.xlen) >> sh)
                rd = self.reg(ops[0])
            elif mn in ('slt', 'sltu'):
                a, b = x[self.reg(ops[1])], x[self.reg(ops[2])]
                v = int(a < b) if mn == 'sltu' else int(self.sx(a, self.xlen) < self.sx(b, self.xlen))
                rd = self.reg(ops[0])
            elif mn in ('slti', 'sltiu'):
                a, imm = x[self.reg(ops[1])], parse_int(ops[2])
                if not -2048 <= imm <= 2047:
                    raise Violation('encoding', 'immediate %d out of range in: %s' % (imm, src))
                v = int(a < (imm & M)) if mn == 'sltiu' else int(self.sx(a, self.xlen) < imm)
                rd = self.reg(ops[0])
            elif mn in ('seqz', 'snez', 'sltz', 'sgtz'):
                a = x[self.reg(ops[1])]
                sa = self.sx(a, self.xlen)
                v = int(a == 0) if mn == 'seqz' else int(a != 0) if mn == 'snez' else int(sa < 0) if mn == 'sltz' else int(sa > 0)
                rd = self.reg(ops[0])
            elif mn == 'neg':
                v, rd = -x[self.reg(ops[1])], self.reg(ops[0])
            elif mn == 'srai':
                a, sh = x[self.reg(ops[1])], parse_int(ops[2])
                if not 0 <= sh < self.xlen:
                    raise Violation('encoding', 'shift amount %d out of range in: %s' % (sh, src))
                v, rd = self.sx(a, self.xlen) >> sh, self.reg(ops[0])
            elif mn == 'lui':
                imm = parse_int(ops[1])
                if not 0 <= imm <= 0xfffff:
                    raise Violation('encoding', 'lui immediate out of range in: %s' % src)
                v, rd = self.sx(imm << 12, 32), self.reg(ops[0])
            elif mn == 'nop':
                v, rd = 0, 0
            elif self.xlen == 64 and mn in ('addw', 'subw', 'sllw', 'srlw', 'sraw'):
                a, b = x[self.reg(ops[1])] & 0xffffffff, x[self.reg(ops[2])]
                v = a + b if mn == 'addw' else a - b if mn == 'subw' else a << (b & 31) if mn == 'sllw' else a >> (b & 31) if mn == 'srlw' else self.sx(a, 32) >> (b & 31)
                v, rd = self.sx(v, 32), self.reg(ops[0])
            elif self.xlen == 64 and mn in ('addiw', 'slliw', 'srliw', 'sraiw', 'sext.w'):
                a = x[self.reg(ops[1])] & 0xffffffff
                imm = 0 if mn == 'sext.w' else parse_int(ops[2])
                if mn != 'addiw' and mn != 'sext.w' and not 0 <= imm < 32:
                    raise Violation('encoding', 'shift amount %d out of range in: %s' % (imm, src))
                if mn == 'addiw' and not -2048 <= imm <= 2047:
                    raise Violation('encoding', 'immediate %d out of range in: %s' % (imm, src))
                v = a + imm if mn in ('addiw', 'sext.w') else a << imm if mn == 'slliw' else a >> imm if mn == 'srliw' else self.sx(a, 32) >> imm
                v, rd = self.sx(v, 32), self.reg(ops[0])
            elif mn in ('xori', 'andi', 'ori', 'addi'):
                a, imm = x[self.reg(ops[1])], parse_int(ops[2])
                if not -2048 <= imm <= 2047:
                    raise Violation('encoding', 'immediate %d out of range in: %s' % (imm, src))
                imm &= M
                v = a ^ imm if mn == 'xori' else a & imm if mn == 'andi' else a | imm if mn == 'ori' else a + imm
                rd = self.reg(ops[0])
            elif mn in ('slli', 'srli'):
                a, sh = x[self.reg(ops[1])], parse_int(ops[2])
                if not 0 <= sh < self.xlen:
                    raise Violation('encoding', 'shift amount %d out of range in: %s' % (sh, src))
                v = (a << sh) if mn == 'slli' else (a >> sh)
                rd = self.reg(ops[0])
            elif mn == 'not':
                v, rd = ~x[self.reg(ops[1])], self.reg(ops[0])
            elif mn == 'mv':
                v, rd = x[self.reg(ops[1])], self.reg(ops[0])
            elif mn == 'li':
                v, rd = parse_int(ops[1]), self.reg(ops[0])
            elif mn in ('lw', 'ld', 'lwu', 'lb', 'lbu', 'lh', 'lhu'):
                off, base = self.memop(ops[1])
                size = 8 if mn == 'ld' else 4 if mn in ('lw', 'lwu') else 2 if mn in ('lh', 'lhu') else 1
                if mn in ('ld', 'lwu') and self.xlen != 64:
                    raise Unsupported('%s on RV32' % mn)
                addr = (x[base] + off) & M
                if addr % size:
                    raise Violation('misaligned-access', '%s at 0x%x' % (src, addr))
                if STACK_TOP - STACK_SIZE <= addr < x[2]:
                    raise Violation('access-below-stack-pointer', '%s touches 0x%x while sp = 0x%x' % (src, addr, x[2]))
                v = mem.load(addr, size, src)
                if mn in ('lw', 'lh', 'lb'):
                    v = self.sx(v, 8 * size)
                rd = self.reg(ops[0])
            elif mn in ('sw', 'sd', 'sh', 'sb'):
                off, base = self.memop(ops[1])
                size = 8 if mn == 'sd' else 4 if mn == 'sw' else 2 if mn == 'sh' else 1
                if mn == 'sd' and self.xlen != 64:
                    raise Unsupported('sd on RV32')
                addr = (x[base] + off) & M
                if addr % size:
                    raise Violation('misaligned-access', '%s at 0x%x' % (src, addr))
                if base == 2 and addr >= STACK_TOP:
                    raise Violation('write-outside-allowed-memory', '%s stores above the entry stack pointer (caller frame)' % src)
                if STACK_TOP - STACK_SIZE <= addr < x[2]:
                    raise Violation('access-below-stack-pointer', '%s touches 0x%x while sp = 0x%x' % (src, addr, x[2]))
                mem.store(addr, size, x[self.reg(ops[0])] & ((1 << (8 * size)) - 1), src)
                rd = 0
                v = 0
            elif mn in ('beq', 'bne', 'blt', 'bge', 'bltu', 'bgeu', 'bgt', 'ble', 'bgtu', 'bleu'):
                a, b = x[self.reg(ops[0])], x[self.reg(ops[1])]
                if mn in ('bgt', 'ble', 'bgtu', 'bleu'):      # pseudo-instructions: operands swapped
                    a, b = b, a
                    mn2 = {'bgt': 'blt', 'ble': 'bge', 'bgtu': 'bltu', 'bleu': 'bgeu'}[mn]
                else:
                    mn2 = mn
                sa, sb = self.sx(a, self.xlen), self.sx(b, self.xlen)
                take = a == b if mn2 == 'beq' else a != b if mn2 == 'bne' else sa < sb if mn2 == 'blt' else sa >= sb if mn2 == 'bge' else a < b if mn2 == 'bltu' else a >= b
                if ops[2] not in prog.labels:
                    raise Unsupported('branch target %r' % ops[2])
                if take:
                    npc = prog.labels[ops[2]]
                rd, v = 0, 0
            elif mn in ('beqz', 'bnez', 'bltz', 'bgez', 'blez', 'bgtz'):
                sa = self.sx(x[self.reg(ops[0])], self.xlen)
                take = sa == 0 if mn == 'beqz' else sa != 0 if mn == 'bnez' else sa < 0 if mn == 'bltz' else sa >= 0 if mn == 'bgez' else sa <= 0 if mn == 'blez' else sa > 0
                if ops[1] not in prog.labels:
                    raise Unsupported('branch target %r' % ops[1])
                if take:
                    npc = prog.labels[ops[1]]
                rd, v = 0, 0
            elif mn == 'j':
                if ops[0] not in prog.labels:
                    raise Unsupported('jump target %r' % ops[0])
                npc = prog.labels[ops[0]]
                rd, v = 0, 0
            elif mn == 'jr' and self.reg(ops[0]) != 1:
                raise Unsupported('indirect jump: %s' % src)
            elif mn in ('ret', 'jr'):
                if x[1] != RET_SENTINEL:
                    problems.append(('return-address', 'ret jumps to 0x%x, not to the caller' % x[1]))
                break
            else:
                raise Unsupported('mnemonic %r in: %s' % (mn, src))
            if rd:
                x[rd] = v & M
            pc = npc
        for r in CALLEE_SAVED:
            if r < self.nregs and x[r] != sent[r]:
                problems.append(('callee-saved-' + NAMES[r], '%s = 0x%x on return, 0x%x on entry' % (NAMES[r], x[r], sent[r])))
        frame = 0 if mem.frame_low is None else STACK_TOP - mem.frame_low
        return bytes(mem.region('state')[2]), problems, n, frame
