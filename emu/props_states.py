def states(rng, nrandom):
    out = [('zero', bytes(40)), ('ones', b'\xff' * 40), ('count', bytes(range(40)))]
    for bit in range(0, 320, 37):
        b = bytearray(40)
        b[bit // 8] = 0x80 >> (bit % 8)
        out.append(('onebit', bytes(b)))
    for _ in range(nrandom):
        out.append(('random', bytes(rng.getrandbits(8) for _ in range(40))))
    return out
