"""AArch64 interpreter for the subset emitted by tools/genarm/ascon_armv8a_64.c."""
import re
from emucore import Memory, Unsupported, Violation, parse_int, STATE_BASE, STACK_TOP, STACK_SIZE, RET_SENTINEL

M64 = (1 << 64) - 1


def ror64(v, n):
    n &= 63
    return ((v >> n) | (v << (64 - n))) & M64 if n else v


class A64:
    def reg(self, s):
        s = s.strip().lower()
        m = re.fullmatch(r'([xw])(\d+)', s)
        if m and int(m.group(2)) <= 30:
            return int(m.group(2)), m.group(1) == 'w'
        if s in ('xzr', 'wzr'):
            return 31, s[0] == 'w'
        if s == 'sp':
            return 32, False
        raise Unsupported('register %r' % s)

    def get(self, x, s):
        r, w = self.reg(s)
        v = 0 if r == 31 else x[r]
        return v & 0xffffffff if w else v

    def put(self, x, s, v):
        r, w = self.reg(s)
        if r == 31:
            return
        x[r] = (v & 0xffffffff) if w else (v & M64)

    def op2(self, x, ops):
        if ops[0].startswith('#') or re.fullmatch(r'-?(0x)?[0-9a-fA-F]+', ops[0]):
            return parse_int(ops[0]) & M64
        v = self.get(x, ops[0])
        if len(ops) > 1:
            m = re.fullmatch(r'(ror|lsl|lsr)\s*#?(\d+)', ops[1].strip().lower())
            if not m:
                raise Unsupported('shifted operand %r' % ops[1])
            n = int(m.group(2))
            v = ror64(v, n) if m.group(1) == 'ror' else (v << n) & M64 if m.group(1) == 'lsl' else v >> n
        return v

    def addr(self, x, s):
        m = re.fullmatch(r'\[\s*(\w+)\s*(?:,\s*#?(-?\w+)\s*)?\]', s.strip())
        if not m:
            raise Unsupported('addressing mode %r' % s)
        r, _ = self.reg(m.group(1))
        return (x[r] + (parse_int(m.group(2)) if m.group(2) else 0)) & M64

    def call(self, prog, entry, state_mem, first_round, max_insn=200000):
        mem = Memory(big_endian=False)
        mem.add('state', STATE_BASE, state_mem)
        mem.add('stack', STACK_TOP - STACK_SIZE, bytes(STACK_SIZE))
        x = [(0x5a5a5a5a00000000 + r * 0x0101010101010101) & M64 for r in range(33)]
        sent = list(x)
        x[32] = sent[32] = STACK_TOP
        x[30] = RET_SENTINEL
        x[0] = STATE_BASE
        x[1] = (0xdeadbeef00000000 | first_round)       # only the low 8 bits of w1 are the argument (uint8_t)
        pc = prog.labels[entry]
        Z = C = 0
        n = 0
        problems = []
        while True:
            if n >= max_insn:
                raise Violation('no-return', 'more than %d instructions executed' % max_insn)
            if pc < 0 or pc >= len(prog.insns):
                raise Violation('control-flow', 'execution ran off the code')
            mn, ops, src = prog.insns[pc]
            n += 1
            npc = pc + 1
            if mn in ('eor', 'and', 'bic', 'orr', 'add', 'sub'):
                a, b = self.get(x, ops[1]), self.op2(x, ops[2:])
                v = a ^ b if mn == 'eor' else a & b if mn == 'and' else a & ~b if mn == 'bic' else a | b if mn == 'orr' else a + b if mn == 'add' else a - b
                self.put(x, ops[0], v)
            elif mn == 'ror':
                self.put(x, ops[0], ror64(self.get(x, ops[1]), parse_int(ops[2])))
            elif mn == 'mov':
                self.put(x, ops[0], self.op2(x, ops[1:]))
            elif mn == 'mvn':
                self.put(x, ops[0], ~self.op2(x, ops[1:]))
            elif mn == 'cmp':
                a, b = self.get(x, ops[0]), self.op2(x, ops[1:])
                Z, C = int(a == b), int(a >= b)
            elif mn in ('beq', 'b.eq', 'bne', 'b.ne', 'b'):
                take = True if mn == 'b' else (Z == 1) if mn in ('beq', 'b.eq') else (Z == 0)
                if ops[0] not in prog.labels:
                    raise Unsupported('branch target %r' % ops[0])
                if take:
                    npc = prog.labels[ops[0]]
            elif mn == 'ldr' and ops[1].startswith('='):
                self.put(x, ops[0], parse_int(ops[1][1:]))
            elif mn in ('ldr', 'str'):
                a = self.addr(x, ops[1])
                size = 4 if self.reg(ops[0])[1] else 8
                if STACK_TOP - STACK_SIZE <= a < x[32]:
                    raise Violation('access-below-stack-pointer', '%s touches 0x%x while sp = 0x%x' % (src, a, x[32]))
                if a % size:
                    raise Violation('misaligned-access', '%s at 0x%x' % (src, a))
                if mn == 'ldr':
                    self.put(x, ops[0], mem.load(a, size, src))
                else:
                    mem.store(a, size, self.get(x, ops[0]), src)
            elif mn in ('ldp', 'stp'):
                a = self.addr(x, ops[2])
                if STACK_TOP - STACK_SIZE <= a < x[32]:
                    raise Violation('access-below-stack-pointer', '%s touches 0x%x while sp = 0x%x' % (src, a, x[32]))
                if a % 8:
                    raise Violation('misaligned-access', '%s at 0x%x' % (src, a))
                for i in range(2):
                    if mn == 'ldp':
                        self.put(x, ops[i], mem.load(a + 8 * i, 8, src))
                    else:
                        mem.store(a + 8 * i, 8, self.get(x, ops[i]), src)
            elif mn == 'ret':
                if x[30] != RET_SENTINEL:
                    problems.append(('return-address', 'ret to 0x%x' % x[30]))
                break
            else:
                raise Unsupported('mnemonic %r in: %s' % (mn, src))
            pc = npc
        for r in list(range(19, 30)) + [32]:
            if x[r] != sent[r]:
                problems.append(('callee-saved-' + ('sp' if r == 32 else 'x%d' % r), 'x%d = 0x%x on return, 0x%x on entry' % (r, x[r], sent[r])))
        if x[18] != sent[18]:
            problems.append(('platform-register-x18', 'x18 modified'))
        frame = 0 if mem.frame_low is None else STACK_TOP - mem.frame_low
        return bytes(mem.region('state')[2]), problems, n, frame


def targets():
    return [dict(name='armv8a-64', file='src/core/ascon-asm-armv8a-64.S', defines=['__ARM_ARCH_8A=1', '__ARM_ARCH_ISA_A64=1'], layout='sliced64', big=False,
                 engine=A64(), comment='', insn_size=4)]
