"""AArch64 interpreter: the subset emitted by tools/genarm/ascon_armv8a_64.c plus the common base-ISA instructions a rewrite of
the same function could plausibly use (frames with stp/ldp pre/post-index, flag-setting ALU ops, all condition codes,
cbz/tbz, csel, bitfield aliases).  Anything else is reported as Unsupported (inconclusive), never guessed."""
import re
from emucore import Memory, Unsupported, Violation, parse_int, STATE_BASE, STACK_TOP, STACK_SIZE, RET_SENTINEL

M64 = (1 << 64) - 1
M32 = (1 << 32) - 1


def ror(v, n, bits):
    n %= bits
    m = (1 << bits) - 1
    v &= m
    return ((v >> n) | (v << (bits - n))) & m if n else v


def sx(v, bits):
    v &= (1 << bits) - 1
    return v - (1 << bits) if v >> (bits - 1) else v


CONDS = {'eq': lambda N, Z, C, V: Z == 1, 'ne': lambda N, Z, C, V: Z == 0, 'cs': lambda N, Z, C, V: C == 1, 'hs': lambda N, Z, C, V: C == 1,
         'cc': lambda N, Z, C, V: C == 0, 'lo': lambda N, Z, C, V: C == 0, 'mi': lambda N, Z, C, V: N == 1, 'pl': lambda N, Z, C, V: N == 0,
         'vs': lambda N, Z, C, V: V == 1, 'vc': lambda N, Z, C, V: V == 0, 'hi': lambda N, Z, C, V: C == 1 and Z == 0,
         'ls': lambda N, Z, C, V: not (C == 1 and Z == 0), 'ge': lambda N, Z, C, V: N == V, 'lt': lambda N, Z, C, V: N != V,
         'gt': lambda N, Z, C, V: Z == 0 and N == V, 'le': lambda N, Z, C, V: not (Z == 0 and N == V), 'al': lambda N, Z, C, V: True}
INVERT = {'eq': 'ne', 'ne': 'eq', 'cs': 'cc', 'hs': 'lo', 'cc': 'cs', 'lo': 'hs', 'mi': 'pl', 'pl': 'mi', 'vs': 'vc', 'vc': 'vs', 'hi': 'ls', 'ls': 'hi',
          'ge': 'lt', 'lt': 'ge', 'gt': 'le', 'le': 'gt'}


class A64:
    def reg(self, s):
        s = s.strip().lower()
        m = re.fullmatch(r'([xw])(\d+)', s)
        if m and int(m.group(2)) <= 30:
            return int(m.group(2)), m.group(1) == 'w'
        if s in ('xzr', 'wzr'):
            return 31, s[0] == 'w'
        if s in ('sp', 'wsp'):
            return 32, s == 'wsp'
        if s in ('fp',):
            return 29, False
        if s in ('lr',):
            return 30, False
        raise Unsupported('register %r' % s)

    def get(self, x, s):
        r, w = self.reg(s)
        v = 0 if r == 31 else x[r]
        return v & M32 if w else v

    def put(self, x, s, v):
        r, w = self.reg(s)
        if r == 31:
            return
        x[r] = (v & M32) if w else (v & M64)

    def bits(self, s):
        return 32 if self.reg(s)[1] else 64

    def is_imm(self, s):
        s = s.strip()
        return s.startswith('#') or re.fullmatch(r'-?(0x)?[0-9a-fA-F]+', s) is not None

    def op2(self, x, ops, bits):
        """immediate | reg | reg, <shift> #n | reg, <extend> [#n]"""
        if self.is_imm(ops[0]):
            v = parse_int(ops[0])
            if len(ops) > 1:
                m = re.fullmatch(r'lsl\s*#?(\d+)', ops[1].strip().lower())
                if not m:
                    raise Unsupported('shifted immediate %r' % ops[1])
                v <<= int(m.group(1))
            return v & ((1 << bits) - 1)
        v = self.get(x, ops[0])
        if len(ops) > 1:
            o = ops[1].strip().lower()
            m = re.fullmatch(r'(ror|lsl|lsr|asr)\s*#?(\d+)', o)
            if m:
                n = int(m.group(2))
                if n >= bits:
                    raise Violation('encoding', 'shift amount %d out of range' % n)
                k = m.group(1)
                v &= (1 << bits) - 1
                v = ror(v, n, bits) if k == 'ror' else (v << n) if k == 'lsl' else (v >> n) if k == 'lsr' else (sx(v, bits) >> n)
            else:
                m = re.fullmatch(r'(uxtb|uxth|uxtw|uxtx|sxtb|sxth|sxtw|sxtx)(?:\s*#?(\d+))?', o)
                if not m:
                    raise Unsupported('operand modifier %r' % ops[1])
                w = {'b': 8, 'h': 16, 'w': 32, 'x': 64}[m.group(1)[3]]
                v = (v & ((1 << w) - 1)) if m.group(1)[0] == 'u' else sx(v, w)
                v <<= int(m.group(2) or 0)
        return v & ((1 << bits) - 1)

    def addr(self, x, ops):
        """ops: the memory operand and whatever follows it -> (address, writeback register or None, new base value)"""
        s = ops[0].strip()
        m = re.fullmatch(r'\[\s*(\w+)\s*(?:,\s*([^\]]+?)\s*)?\](!?)', s)
        if not m:
            raise Unsupported('addressing mode %r' % s)
        r, _ = self.reg(m.group(1))
        if r == 31:
            raise Unsupported('zero register as base')
        base = x[r]
        off = 0
        if m.group(2):
            parts = [p.strip() for p in m.group(2).split(',')]
            if self.is_imm(parts[0]):
                off = parse_int(parts[0])
            else:
                off = self.get(x, parts[0])
                if len(parts) > 1:
                    mm = re.fullmatch(r'(lsl|uxtw|sxtw|sxtx)(?:\s*#?(\d+))?', parts[1].lower())
                    if not mm:
                        raise Unsupported('index modifier %r' % parts[1])
                    if mm.group(1) == 'uxtw':
                        off &= M32
                    elif mm.group(1) == 'sxtw':
                        off = sx(off, 32)
                    off <<= int(mm.group(2) or 0)
        if m.group(3) == '!':                     # pre-index
            a = (base + off) & M64
            return a, r, a
        if len(ops) > 1 and self.is_imm(ops[1]) and not m.group(2):    # post-index
            return base & M64, r, (base + parse_int(ops[1])) & M64
        return (base + off) & M64, None, None

    def check_access(self, x, a, size, src, base_is_sp):
        if base_is_sp and x[32] % 16:
            raise Violation('stack-misaligned', '%s uses sp = 0x%x, which is not 16-byte aligned' % (src, x[32]))
        if STACK_TOP - STACK_SIZE <= a < x[32]:
            raise Violation('access-below-stack-pointer', '%s touches 0x%x while sp = 0x%x' % (src, a, x[32]))
        if a % size:
            raise Violation('misaligned-access', '%s at 0x%x' % (src, a))

    def call(self, prog, entry, state_mem, first_round, max_insn=200000):
        mem = Memory(big_endian=False)
        mem.add('state', STATE_BASE, state_mem)
        mem.add('stack', STACK_TOP - STACK_SIZE, bytes(STACK_SIZE))
        x = [(0x5a5a5a5a00000000 + r * 0x0101010101010101) & M64 for r in range(33)]
        sent = list(x)
        x[32] = sent[32] = STACK_TOP
        x[30] = RET_SENTINEL
        x[0] = STATE_BASE
        x[1] = (0xdeadbeef00000000 | first_round)       # only the low 8 bits of w1 are the argument (uint8_t)
        pc = prog.labels[entry]
        N = Z = C = V = 0
        n = 0
        problems = []

        def setflags_logic(v, bits):
            nonlocal N, Z, C, V
            v &= (1 << bits) - 1
            N, Z, C, V = v >> (bits - 1), int(v == 0), 0, 0

        def addsub(a, b, sub, bits, carry_in=None):
            nonlocal N, Z, C, V
            m = (1 << bits) - 1
            a &= m
            b &= m
            bb = (~b & m) if sub else b
            cin = (1 if sub else 0) if carry_in is None else carry_in
            full = a + bb + cin
            r = full & m
            flags = (r >> (bits - 1), int(r == 0), int(full > m), int(((a ^ r) & (bb ^ r)) >> (bits - 1) & 1))
            return r, flags

        def label(t):
            if t not in prog.labels:
                raise Unsupported('branch target %r' % t)
            return prog.labels[t]

        while True:
            if n >= max_insn:
                raise Violation('no-return', 'more than %d instructions executed' % max_insn)
            if pc < 0 or pc >= len(prog.insns):
                raise Violation('control-flow', 'execution ran off the code')
            mn, ops, src = prog.insns[pc]
            n += 1
            npc = pc + 1
            if mn in ('eor', 'and', 'bic', 'orr', 'orn', 'eon', 'ands', 'bics'):
                bits = self.bits(ops[0])
                a, b = self.get(x, ops[1]), self.op2(x, ops[2:], bits)
                k = mn.rstrip('s') if mn in ('ands', 'bics') else mn
                m = (1 << bits) - 1
                v = a ^ b if k == 'eor' else a & b if k == 'and' else a & ~b if k == 'bic' else a | b if k == 'orr' else a | (~b & m) if k == 'orn' else a ^ (~b & m)
                v &= m
                self.put(x, ops[0], v)
                if mn in ('ands', 'bics'):
                    setflags_logic(v, bits)
            elif mn == 'tst':
                bits = self.bits(ops[0])
                setflags_logic(self.get(x, ops[0]) & self.op2(x, ops[1:], bits), bits)
            elif mn in ('add', 'sub', 'adds', 'subs'):
                bits = self.bits(ops[0])
                r, fl = addsub(self.get(x, ops[1]), self.op2(x, ops[2:], bits), mn.startswith('sub'), bits)
                self.put(x, ops[0], r)
                if mn.endswith('s'):
                    N, Z, C, V = fl
            elif mn in ('cmp', 'cmn'):
                bits = self.bits(ops[0])
                r, fl = addsub(self.get(x, ops[0]), self.op2(x, ops[1:], bits), mn == 'cmp', bits)
                N, Z, C, V = fl
            elif mn in ('neg', 'negs'):
                bits = self.bits(ops[0])
                r, fl = addsub(0, self.op2(x, ops[1:], bits), True, bits)
                self.put(x, ops[0], r)
                if mn == 'negs':
                    N, Z, C, V = fl
            elif mn in ('ror', 'lsl', 'lsr', 'asr'):
                bits = self.bits(ops[0])
                a = self.get(x, ops[1])
                sh = (parse_int(ops[2]) if self.is_imm(ops[2]) else self.get(x, ops[2])) % bits
                if self.is_imm(ops[2]) and not 0 <= parse_int(ops[2]) < bits:
                    raise Violation('encoding', 'shift amount out of range in: %s' % src)
                v = ror(a, sh, bits) if mn == 'ror' else (a << sh) if mn == 'lsl' else (a >> sh) if mn == 'lsr' else (sx(a, bits) >> sh)
                self.put(x, ops[0], v)
            elif mn == 'extr':
                bits = self.bits(ops[0])
                hi, lo, lsb = self.get(x, ops[1]), self.get(x, ops[2]), parse_int(ops[3])
                self.put(x, ops[0], (((hi << bits) | lo) >> lsb) & ((1 << bits) - 1))
            elif mn in ('ubfx', 'sbfx', 'ubfiz'):
                bits = self.bits(ops[0])
                a, lsb, w = self.get(x, ops[1]), parse_int(ops[2]), parse_int(ops[3])
                if mn == 'ubfx':
                    v = (a >> lsb) & ((1 << w) - 1)
                elif mn == 'sbfx':
                    v = sx((a >> lsb) & ((1 << w) - 1), w)
                else:
                    v = (a & ((1 << w) - 1)) << lsb
                self.put(x, ops[0], v)
            elif mn in ('uxtb', 'uxth', 'sxtb', 'sxth', 'sxtw', 'uxtw'):
                w = {'b': 8, 'h': 16, 'w': 32}[mn[3]]
                a = self.get(x, ops[1])
                self.put(x, ops[0], (a & ((1 << w) - 1)) if mn[0] == 'u' else sx(a, w))
            elif mn == 'rev':
                bits = self.bits(ops[0])
                self.put(x, ops[0], int.from_bytes(self.get(x, ops[1]).to_bytes(bits // 8, 'little'), 'big'))
            elif mn == 'mov':
                self.put(x, ops[0], self.op2(x, ops[1:], self.bits(ops[0])))
            elif mn == 'mvn':
                self.put(x, ops[0], ~self.op2(x, ops[1:], self.bits(ops[0])))
            elif mn in ('movz', 'movn', 'movk'):
                bits = self.bits(ops[0])
                imm = parse_int(ops[1])
                sh = 0
                if len(ops) > 2:
                    m = re.fullmatch(r'lsl\s*#?(\d+)', ops[2].strip().lower())
                    if not m:
                        raise Unsupported('operand %r' % ops[2])
                    sh = int(m.group(1))
                if not 0 <= imm <= 0xffff or sh % 16 or sh >= bits:
                    raise Violation('encoding', 'bad wide immediate in: %s' % src)
                if mn == 'movz':
                    v = imm << sh
                elif mn == 'movn':
                    v = ~(imm << sh)
                else:
                    v = (self.get(x, ops[0]) & ~(0xffff << sh)) | (imm << sh)
                self.put(x, ops[0], v)
            elif mn in ('csel', 'csinc', 'csinv', 'csneg'):
                c = ops[3].strip().lower()
                if c not in CONDS:
                    raise Unsupported('condition %r' % c)
                bits = self.bits(ops[0])
                if CONDS[c](N, Z, C, V):
                    v = self.get(x, ops[1])
                else:
                    b = self.get(x, ops[2])
                    v = b if mn == 'csel' else b + 1 if mn == 'csinc' else ~b if mn == 'csinv' else -b
                self.put(x, ops[0], v)
            elif mn in ('cset', 'csetm'):
                c = ops[1].strip().lower()
                if c not in CONDS:
                    raise Unsupported('condition %r' % c)
                t = CONDS[c](N, Z, C, V)
                self.put(x, ops[0], (1 if mn == 'cset' else -1) if t else 0)
            elif mn == 'nop':
                pass
            elif mn == 'b' or (mn.startswith('b.') and mn[2:] in CONDS) or (mn[0] == 'b' and mn[1:] in CONDS and mn not in ('bl', 'blr', 'bic', 'bics')):
                c = 'al' if mn == 'b' else mn[2:] if mn.startswith('b.') else mn[1:]
                t = label(ops[0])
                if CONDS[c](N, Z, C, V):
                    npc = t
            elif mn in ('cbz', 'cbnz'):
                t = label(ops[1])
                if (self.get(x, ops[0]) == 0) == (mn == 'cbz'):
                    npc = t
            elif mn in ('tbz', 'tbnz'):
                t = label(ops[2])
                bit = (self.get(x, ops[0]) >> parse_int(ops[1])) & 1
                if (bit == 0) == (mn == 'tbz'):
                    npc = t
            elif mn == 'ldr' and ops[1].startswith('='):
                self.put(x, ops[0], parse_int(ops[1][1:]))
            elif mn in ('ldr', 'str', 'ldur', 'stur', 'ldrb', 'strb', 'ldrh', 'strh', 'ldrsw'):
                a, wb, nb = self.addr(x, ops[1:])
                size = 1 if mn.endswith('b') else 2 if mn.endswith('h') else 4 if (mn == 'ldrsw' or self.reg(ops[0])[1]) else 8
                if wb is not None and a == nb:          # pre-index: the base register is updated first
                    x[wb] = nb
                    wb = None
                self.check_access(x, a, size if not mn.endswith('ur') else 1, src, ops[1].strip().lower().startswith('[sp'))
                if mn.startswith('ld'):
                    v = mem.load(a, size, src)
                    self.put(x, ops[0], sx(v, 32) if mn == 'ldrsw' else v)
                else:
                    mem.store(a, size, self.get(x, ops[0]) & ((1 << (8 * size)) - 1), src)
                if wb is not None:
                    x[wb] = nb
            elif mn in ('ldp', 'stp'):
                size = 4 if self.reg(ops[0])[1] else 8
                a, wb, nb = self.addr(x, ops[2:])
                base_sp = ops[2].strip().lower().startswith('[sp')
                if wb is not None and a == nb:          # pre-index: the base register is updated first
                    x[wb] = nb
                    wb = None
                self.check_access(x, a, size, src, base_sp)
                for i in range(2):
                    if mn == 'ldp':
                        self.put(x, ops[i], mem.load(a + size * i, size, src))
                    else:
                        mem.store(a + size * i, size, self.get(x, ops[i]), src)
                if wb is not None:
                    x[wb] = nb
            elif mn == 'ret':
                tgt = x[30] if not ops or not ops[0] else self.get(x, ops[0])
                if tgt != RET_SENTINEL:
                    problems.append(('return-address', 'ret to 0x%x' % tgt))
                break
            else:
                raise Unsupported('mnemonic %r in: %s' % (mn, src))
            pc = npc
        for r in list(range(19, 30)) + [32]:
            if x[r] != sent[r]:
                problems.append(('callee-saved-' + ('sp' if r == 32 else 'x%d' % r), 'x%d = 0x%x on return, 0x%x on entry' % (r, x[r], sent[r])))
        if x[18] != sent[18]:
            problems.append(('platform-register-x18', 'x18 modified'))
        frame = 0 if mem.frame_low is None else STACK_TOP - mem.frame_low
        return bytes(mem.region('state')[2]), problems, n, frame


def targets():
    return [dict(name='armv8a-64', file='src/core/ascon-asm-armv8a-64.S', defines=['__ARM_ARCH_8A=1', '__ARM_ARCH_ISA_A64=1'], layout='sliced64', big=False,
                 engine=A64(), comment='', insn_size=4)]
