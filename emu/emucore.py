"""Shared parts of the instrumented text interpreters (C18 monitor 4).

A *program* is the preprocessed text of one checked-in .S file: a list of instructions with
labels resolved to indices, plus data emitted in the text section.  Memory is a set of named
regions; every access is checked against an access policy and logged, so the monitor can assert
"touches no memory outside the state and its own stack frame".  Unknown mnemonics raise
Unsupported (the file is then reported inconclusive, never as a violation)."""
import os
import re
import subprocess

STATE_BASE = 0x00100000
STACK_TOP = 0x7ff00000          # stack pointer on entry (plus ABI specific adjustments)
STACK_SIZE = 0x4000
TEXT_BASE = 0x00400000
RET_SENTINEL = 0x0badc0de & ~3


class Unsupported(Exception):
    pass


class Violation(Exception):
    def __init__(self, kind, detail):
        Exception.__init__(self, kind + ': ' + detail)
        self.kind, self.detail = kind, detail


class Memory:
    """flat byte memory with regions and an access policy"""

    def __init__(self, big_endian=False):
        self.regions = []       # (name, base, bytearray, readable, writable)
        self.big = big_endian
        self.log = {}           # region name -> [reads, writes]
        self.frame_low = None   # lowest stack address touched

    def add(self, name, base, data, readable=True, writable=True):
        self.regions.append([name, base, bytearray(data), readable, writable])
        self.log[name] = [0, 0]

    def region(self, name):
        for r in self.regions:
            if r[0] == name:
                return r
        raise KeyError(name)

    def _find(self, addr, size, write, what):
        for r in self.regions:
            if r[1] <= addr and addr + size <= r[1] + len(r[2]):
                if write and not r[4]:
                    raise Violation('write-outside-allowed-memory', '%s writes %d bytes at 0x%x in read-only region %s' % (what, size, addr, r[0]))
                if not write and not r[3]:
                    raise Violation('read-outside-allowed-memory', '%s reads %d bytes at 0x%x in region %s' % (what, size, addr, r[0]))
                self.log[r[0]][1 if write else 0] += 1
                if r[0] == 'stack':
                    self.frame_low = addr if self.frame_low is None else min(self.frame_low, addr)
                return r
        raise Violation(('write' if write else 'read') + '-outside-allowed-memory',
                        '%s %s %d bytes at 0x%x (outside the state, the own frame and the code/literal area)' % (what, 'writes' if write else 'reads', size, addr))

    def load(self, addr, size, what='insn'):
        r = self._find(addr, size, False, what)
        b = r[2][addr - r[1]:addr - r[1] + size]
        return int.from_bytes(b, 'big' if self.big else 'little')

    def store(self, addr, size, value, what='insn'):
        r = self._find(addr, size, True, what)
        r[2][addr - r[1]:addr - r[1] + size] = (value & ((1 << (8 * size)) - 1)).to_bytes(size, 'big' if self.big else 'little')


def preprocess(path, defines, repo_src):
    """run the C preprocessor over a .S file with the target's predefined macros"""
    cmd = ['gcc', '-E', '-P', '-undef', '-x', 'assembler-with-cpp', '-I' + os.path.join(repo_src, 'core'), '-I' + repo_src,
           '-I' + os.path.join(repo_src, 'masking'), '-I' + os.path.join(os.path.dirname(os.path.abspath(__file__)), 'stubs')]
    for d in defines:
        cmd.append('-D' + d)
    cmd.append(path)
    p = subprocess.run(cmd, stdout=subprocess.PIPE, stderr=subprocess.PIPE, text=True)
    if p.returncode:
        raise Unsupported('preprocessor failed: ' + p.stderr[-300:])
    return p.stdout


class Program:
    """instructions, labels and in-text data of one file"""

    def __init__(self, text, comment_chars='#@;', insn_size=4, label_suffix=':'):
        self.insns = []        # (mnemonic, [operands], source line)
        self.labels = {}       # name -> instruction index
        self.data = {}         # label -> bytes (tables in the text section)
        self.globals = set()
        self.insn_size = insn_size
        self.equ = {}
        self.numeric = {}      # numeric local label -> [instruction indices]
        self.addr = []         # address of instruction i
        self.label_addr = {}   # label -> address (code and data labels)
        self.index_at = {}     # address -> instruction index
        self.data_at = {}      # address -> (size, expression) of in-text data
        pos = TEXT_BASE
        pending_data_label = None
        cur_data = None
        for raw in text.splitlines():
            line = raw
            # strip comments (keep '#' when it is an immediate prefix: only strip at start or after whitespace + comment char for ISAs that use '@' / ';')
            line = re.sub(r'/\*.*?\*/', '', line)
            for cc in comment_chars:
                if cc == '#':
                    if line.lstrip().startswith('#'):
                        line = ''
                else:
                    i = line.find(cc)
                    if i >= 0:
                        line = line[:i]
            line = line.strip()
            if not line:
                continue
            while True:
                m = re.match(r'^(\d+)\s*:\s*(.*)$', line)
                if m:       # numeric local label (referenced as Nb / Nf)
                    self.numeric.setdefault(m.group(1), []).append(len(self.insns))
                    line = m.group(2).strip()
                    continue
                m = re.match(r'^([A-Za-z_.$][\w.$]*)\s*:\s*(.*)$', line)
                if not m:
                    break
                self.labels[m.group(1)] = len(self.insns)
                self.label_addr[m.group(1)] = pos
                pending_data_label = m.group(1)
                cur_data = None
                line = m.group(2).strip()
            if not line:
                continue
            if line.startswith('.'):
                d = line.split(None, 1)
                name, arg = d[0], (d[1] if len(d) > 1 else '')
                if name in ('.globl', '.global'):
                    self.globals.add(arg.strip())
                elif name in ('.byte', '.short', '.hword', '.word', '.long', '.int', '.quad', '.2byte', '.4byte'):
                    if pending_data_label is not None and cur_data is None:
                        cur_data = self.data.setdefault(pending_data_label, [])
                    if cur_data is not None:
                        cur_data.append((name, [a.strip() for a in arg.split(',')]))
                    sz = {'.byte': 1, '.short': 2, '.hword': 2, '.2byte': 2, '.quad': 8}.get(name, 4)
                    for a in arg.split(','):
                        self.data_at[pos] = (sz, a.strip())
                        pos += sz
                elif name in ('.align', '.p2align', '.balign'):
                    try:
                        n = int(arg.split(',')[0].strip() or '0')
                        al = n if name == '.balign' else (1 << n)
                        if al > 1 and pos % al:
                            pos += al - pos % al
                    except ValueError:
                        pass
                elif name in ('.equ', '.set'):
                    k, v = [x.strip() for x in arg.split(',', 1)]
                    self.equ[k] = v
                continue
            parts = line.split(None, 1)
            mn = parts[0].lower()
            ops = split_operands(parts[1]) if len(parts) > 1 else []
            self.index_at[pos] = len(self.insns)
            self.addr.append(pos)
            pos += insn_size
            self.insns.append((mn, ops, raw.strip()))
            pending_data_label = None
            cur_data = None

    def resolve(self, target, pc):
        """instruction index of a branch target (named label or numeric local label Nb / Nf)"""
        if target in self.labels:
            return self.labels[target]
        m = re.fullmatch(r'(\d+)([bf])', target)
        if m and m.group(1) in self.numeric:
            idx = self.numeric[m.group(1)]
            if m.group(2) == 'b':
                c = [i for i in idx if i <= pc]
                if c:
                    return c[-1]
            else:
                c = [i for i in idx if i > pc]
                if c:
                    return c[0]
        raise Unsupported('branch target %r' % target)

    def addr_of(self, label):
        return self.label_addr[label]

    def eval_expr(self, e):
        """label, number, or label-label"""
        e = e.strip()
        m = re.fullmatch(r'([\w.$]+)\s*-\s*([\w.$]+)', e)
        if m and m.group(1) in self.label_addr and m.group(2) in self.label_addr:
            return self.label_addr[m.group(1)] - self.label_addr[m.group(2)]
        if e in self.label_addr:
            return self.label_addr[e]
        return parse_int(e, self.equ)

    def text_data_bytes(self, big_endian=False):
        """list of (address, bytes) for the in-text data words"""
        out = []
        for a, (sz, e) in sorted(self.data_at.items()):
            out.append((a, (self.eval_expr(e) & ((1 << (8 * sz)) - 1)).to_bytes(sz, 'big' if big_endian else 'little')))
        return out


def split_operands(s):
    out, depth, cur = [], 0, ''
    for ch in s:
        if ch in '([{':
            depth += 1
        elif ch in ')]}':
            depth -= 1
        if ch == ',' and depth == 0:
            out.append(cur.strip())
            cur = ''
        else:
            cur += ch
    if cur.strip():
        out.append(cur.strip())
    return out


def parse_int(s, equ=None):
    s = s.strip().lstrip('#$').strip()
    if equ and s in equ:
        s = equ[s]
    neg = s.startswith('-')
    if neg:
        s = s[1:]
    if s.lower().startswith('0x'):
        v = int(s, 16)
    elif s.lower().startswith('0b'):
        v = int(s, 2)
    elif re.fullmatch(r'\d+', s):
        v = int(s, 10)
    else:
        raise Unsupported('cannot parse integer %r' % s)
    return -v if neg else v


# ------------------------------------------------------------------------------------------------ state layouts
def even_odd(v):
    e = o = 0
    for k in range(32):
        e |= ((v >> (2 * k)) & 1) << k
        o |= ((v >> (2 * k + 1)) & 1) << k
    return e, o


def interleave(e, o):
    v = 0
    for k in range(32):
        v |= ((e >> k) & 1) << (2 * k)
        v |= ((o >> k) & 1) << (2 * k + 1)
    return v


def to_layout(canon, kind, big_endian):
    """canonical big-endian 40 bytes -> bytes of the backend's in-memory state"""
    order = 'big' if big_endian else 'little'
    out = b''
    for i in range(5):
        v = int.from_bytes(canon[8 * i:8 * i + 8], 'big')
        if kind == 'sliced64':
            out += v.to_bytes(8, order)
        elif kind == 'sliced32':
            e, o = even_odd(v)
            out += e.to_bytes(4, order) + o.to_bytes(4, order)
        elif kind == 'bytes':
            out += canon[8 * i:8 * i + 8]
        else:
            raise ValueError(kind)
    return out


def from_layout(mem, kind, big_endian):
    order = 'big' if big_endian else 'little'
    out = b''
    for i in range(5):
        chunk = bytes(mem[8 * i:8 * i + 8])
        if kind == 'sliced64':
            out += int.from_bytes(chunk, order).to_bytes(8, 'big')
        elif kind == 'sliced32':
            e = int.from_bytes(chunk[:4], order)
            o = int.from_bytes(chunk[4:], order)
            out += interleave(e, o).to_bytes(8, 'big')
        else:
            out += chunk
    return out
