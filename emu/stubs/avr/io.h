/* empty stand-in for <avr/io.h>: the interpreters only need the file to preprocess */
