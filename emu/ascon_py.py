"""ASCON permutation in Python, written from the specification (used by the C18 interpreters and the i386 monitor)."""
MASK = (1 << 64) - 1
RC = [0xf0, 0xe1, 0xd2, 0xc3, 0xb4, 0xa5, 0x96, 0x87, 0x78, 0x69, 0x5a, 0x4b]
ROT = [(19, 28), (61, 39), (1, 6), (10, 17), (7, 41)]
SBOX = [0x4, 0xb, 0x1f, 0x14, 0x1a, 0x15, 0x9, 0x2, 0x1b, 0x5, 0x8, 0x12, 0x1d, 0x3, 0x6, 0x1c,
        0x1e, 0x13, 0x7, 0xe, 0x0, 0xd, 0x11, 0x18, 0x10, 0xc, 0x1, 0x19, 0x16, 0xa, 0xf, 0x17]


def ror(x, n):
    return ((x >> n) | (x << (64 - n))) & MASK


def permute_words(x, first_round):
    x = list(x)
    for r in range(first_round, 12):
        x[2] ^= RC[r]
        x[0] ^= x[4]; x[4] ^= x[3]; x[2] ^= x[1]
        t = [(~x[i] & MASK) & x[(i + 1) % 5] for i in range(5)]
        for i in range(5):
            x[i] ^= t[(i + 1) % 5]
        x[1] ^= x[0]; x[0] ^= x[4]; x[3] ^= x[2]; x[2] = ~x[2] & MASK
        for i in range(5):
            x[i] ^= ror(x[i], ROT[i][0]) ^ ror(x[i], ROT[i][1])
    return x


def permute_bytes(b, first_round):
    x = [int.from_bytes(b[8 * i:8 * i + 8], 'big') for i in range(5)]
    return b''.join(w.to_bytes(8, 'big') for w in permute_words(x, first_round))


def selftest():
    inp = bytes(range(40))
    o12 = bytes.fromhex('060587e2d489dd431cc2b17b0e3c176495734253184 4a67496b17175b4cb686329b512d627d906e5'.replace(' ', ''))
    o8 = bytes.fromhex('830d260d335f3bedda0bba917bcfcad7dd0d88e7dcb5ecd0892a02151f95946e3a69cb3cf982f6f7')
    assert permute_bytes(inp, 0) == o12 and permute_bytes(inp, 4) == o8
    # table S-box agrees with the bit-sliced formula on one round
    import random
    rnd = random.Random(5)
    for _ in range(50):
        x = [rnd.getrandbits(64) for _ in range(5)]
        y = list(x)
        y[2] ^= RC[11]
        z = [0] * 5
        for col in range(64):
            v = 0
            for w in range(5):
                v = (v << 1) | ((y[w] >> col) & 1)
            v = SBOX[v]
            for w in range(4, -1, -1):
                z[w] |= (v & 1) << col
                v >>= 1
        for i in range(5):
            z[i] ^= ror(z[i], ROT[i][0]) ^ ror(z[i], ROT[i][1])
        assert z == permute_words(x, 11)
    return True


if __name__ == '__main__':
    print(selftest())
