"""AVR (avr5) interpreter for the subset emitted by tools/genavr: the plain permutation and the
masked x2 / x3 permutations."""
import re
from emucore import Memory, Unsupported, Violation, parse_int, even_odd

STATE = 0x0200
PRESERVE = 0x0300
STACK_TOP_AVR = 0x08ff
RET = 0x1234


class AVR:
    def __init__(self, shares=1, stride=8):
        self.shares, self.stride = shares, stride

    def reg(self, s):
        s = s.strip().lower()
        m = re.fullmatch(r'r(\d+)', s)
        if not m or int(m.group(1)) > 31:
            raise Unsupported('register %r' % s)
        return int(m.group(1))

    def run(self, prog, entry, state_mem, first_round, preserve=None, max_insn=600000):
        mem = Memory(big_endian=False)
        mem.add('state', STATE, state_mem)
        if preserve is not None:
            mem.add('preserve', PRESERVE, preserve)
        sp_entry = STACK_TOP_AVR - 2
        mem.add('stack', 0x0400, bytes(sp_entry + 1 - 0x0400))
        mem.add('retaddr', sp_entry + 1, bytes([RET >> 8, RET & 0xff]), writable=False)
        r = [(0x40 + 5 * i) & 0xff for i in range(32)]
        r[1] = 0
        sent = list(r)
        r[24], r[25] = STATE & 0xff, STATE >> 8
        r[22] = first_round
        r[23] = 0xA5                      # upper byte of the promoted uint8_t argument is unspecified
        if preserve is not None:
            r[20], r[21] = PRESERVE & 0xff, PRESERVE >> 8
        sp = sp_entry
        C = Z = T = N = V = 0
        I = 1
        pc = prog.labels[entry]
        n = 0
        problems = []
        skip = False

        def pair(i):
            return r[i] | (r[i + 1] << 8)

        def setpair(i, v):
            r[i], r[i + 1] = v & 0xff, (v >> 8) & 0xff

        def ptr(s, src):
            """address for ld/st/ldd/std operand like X, X+, -X, Y+q, Z+q, Z; returns (addr, post action)"""
            s = s.strip().upper().replace(' ', '')
            base = {'X': 26, 'Y': 28, 'Z': 30}
            m = re.fullmatch(r'(-?)([XYZ])(\+?)(\d*)', s)
            if not m:
                raise Unsupported('pointer operand %r' % s)
            pre, reg, plus, q = m.groups()
            b = base[reg]
            a = pair(b)
            if pre:
                a = (a - 1) & 0xffff
                setpair(b, a)
                return a
            if plus and q:
                if reg == 'X':
                    raise Violation('encoding', 'X+q displacement does not exist: %s' % src)
                if int(q) > 63:
                    raise Violation('encoding', 'displacement %s > 63 in: %s' % (q, src))
                return (a + int(q)) & 0xffff
            if plus:
                setpair(b, (a + 1) & 0xffff)
            return a

        while True:
            if n >= max_insn:
                raise Violation('no-return', 'more than %d instructions executed' % max_insn)
            if pc < 0 or pc >= len(prog.insns):
                raise Violation('control-flow', 'execution ran off the code')
            mn, ops, src = prog.insns[pc]
            npc = pc + 1
            if skip:
                skip = False
                pc = npc
                continue
            n += 1
            if mn in ('eor', 'and', 'or'):
                d, s2 = self.reg(ops[0]), self.reg(ops[1])
                v = r[d] ^ r[s2] if mn == 'eor' else r[d] & r[s2] if mn == 'and' else r[d] | r[s2]
                r[d] = v
                Z, N, V = int(v == 0), v >> 7, 0
            elif mn in ('andi', 'ori', 'cbr', 'sbr'):
                d = self.reg(ops[0])
                if d < 16:
                    raise Violation('encoding', '%s needs r16..r31: %s' % (mn, src))
                k = parse_int(ops[1]) & 0xff
                v = r[d] & k if mn == 'andi' else r[d] & ~k & 0xff if mn == 'cbr' else r[d] | k
                r[d] = v
                Z, N, V = int(v == 0), v >> 7, 0
            elif mn in ('clr', 'ser', 'tst'):
                d = self.reg(ops[0])
                if mn == 'ser':
                    if d < 16:
                        raise Violation('encoding', 'ser needs r16..r31: %s' % src)
                    r[d] = 0xff
                else:
                    if mn == 'clr':
                        r[d] = 0
                    Z, N, V = int(r[d] == 0), r[d] >> 7, 0
            elif mn in ('inc', 'dec'):
                d = self.reg(ops[0])
                V = int(r[d] == (0x7f if mn == 'inc' else 0x80))
                r[d] = (r[d] + (1 if mn == 'inc' else -1)) & 0xff
                Z, N = int(r[d] == 0), r[d] >> 7
            elif mn == 'neg':
                d = self.reg(ops[0])
                v = (-r[d]) & 0xff
                C, V, Z, N = int(v != 0), int(v == 0x80), int(v == 0), v >> 7
                r[d] = v
            elif mn == 'asr':
                d = self.reg(ops[0])
                C = r[d] & 1
                r[d] = (r[d] >> 1) | (r[d] & 0x80)
                Z, N = int(r[d] == 0), r[d] >> 7
                V = N ^ C
            elif mn == 'nop':
                pass
            elif mn == 'mov':
                r[self.reg(ops[0])] = r[self.reg(ops[1])]
            elif mn == 'movw':
                d, s2 = self.reg(ops[0]), self.reg(ops[1])
                if d % 2 or s2 % 2:
                    raise Violation('encoding', 'movw needs even registers: %s' % src)
                r[d], r[d + 1] = r[s2], r[s2 + 1]
            elif mn == 'com':
                d = self.reg(ops[0])
                r[d] = ~r[d] & 0xff
                C, Z, N, V = 1, int(r[d] == 0), r[d] >> 7, 0
            elif mn in ('ror', 'rol', 'lsr', 'lsl'):
                d = self.reg(ops[0])
                v = r[d]
                if mn == 'ror':
                    nv, C2 = (C << 7) | (v >> 1), v & 1
                elif mn == 'rol':
                    nv, C2 = ((v << 1) | C) & 0xff, v >> 7
                elif mn == 'lsr':
                    nv, C2 = v >> 1, v & 1
                else:
                    nv, C2 = (v << 1) & 0xff, v >> 7
                r[d], C, Z = nv, C2, int(nv == 0)
                N = nv >> 7
                V = N ^ C
            elif mn in ('add', 'adc'):
                d, s2 = self.reg(ops[0]), self.reg(ops[1])
                a0, b0 = r[d], r[s2]
                v = a0 + b0 + (C if mn == 'adc' else 0)
                r[d], C = v & 0xff, v >> 8
                Z, N = int(r[d] == 0), r[d] >> 7
                V = ((a0 ^ r[d]) & (b0 ^ r[d])) >> 7 & 1
            elif mn in ('sub', 'sbc', 'subi', 'sbci', 'cp', 'cpc', 'cpi'):
                d = self.reg(ops[0])
                if mn in ('subi', 'sbci', 'cpi'):
                    if d < 16:
                        raise Violation('encoding', '%s needs r16..r31: %s' % (mn, src))
                    k = parse_int(ops[1]) & 0xff
                else:
                    k = r[self.reg(ops[1])]
                a0 = r[d]
                v = a0 - k - (C if mn in ('sbc', 'sbci', 'cpc') else 0)
                C = int(v < 0)
                v &= 0xff
                Z = int(v == 0) & (Z if mn in ('sbc', 'sbci', 'cpc') else 1)
                N = v >> 7
                V = ((a0 ^ k) & (a0 ^ v)) >> 7 & 1
                if mn not in ('cp', 'cpc', 'cpi'):
                    r[d] = v
            elif mn in ('adiw', 'sbiw'):
                d, k = self.reg(ops[0]), parse_int(ops[1])
                if d not in (24, 26, 28, 30) or not 0 <= k <= 63:
                    raise Violation('encoding', 'bad adiw/sbiw operands: %s' % src)
                v = pair(d) + (k if mn == 'adiw' else -k)
                C = int(v < 0 or v > 0xffff)
                old = pair(d)
                setpair(d, v & 0xffff)
                Z, N = int(v & 0xffff == 0), (v >> 15) & 1
                V = int((mn == 'adiw' and not old >> 15 and N) or (mn == 'sbiw' and old >> 15 and not N))
            elif mn == 'swap':
                d = self.reg(ops[0])
                r[d] = ((r[d] << 4) | (r[d] >> 4)) & 0xff
            elif mn == 'ldi':
                d = self.reg(ops[0])
                if d < 16:
                    raise Violation('encoding', 'ldi needs r16..r31: %s' % src)
                r[d] = parse_int(ops[1]) & 0xff
            elif mn == 'bst':
                T = (r[self.reg(ops[0])] >> parse_int(ops[1])) & 1
            elif mn == 'bld':
                d, b = self.reg(ops[0]), parse_int(ops[1])
                r[d] = (r[d] & ~(1 << b)) | (T << b)
            elif mn in ('ld', 'ldd'):
                a = ptr(ops[1], src)
                if 0x0400 <= a <= sp:
                    raise Violation('access-below-stack-pointer', '%s touches 0x%x while SP = 0x%x' % (src, a, sp))
                r[self.reg(ops[0])] = mem.load(a, 1, src)
            elif mn in ('st', 'std'):
                a = ptr(ops[0], src)
                if 0x0400 <= a <= sp:
                    raise Violation('access-below-stack-pointer', '%s touches 0x%x while SP = 0x%x' % (src, a, sp))
                mem.store(a, 1, r[self.reg(ops[1])], src)
            elif mn == 'push':
                mem.store(sp, 1, r[self.reg(ops[0])], src)
                sp = (sp - 1) & 0xffff
            elif mn == 'pop':
                sp = (sp + 1) & 0xffff
                if sp > sp_entry:
                    raise Violation('read-outside-allowed-memory', 'pop above the entry stack pointer: %s' % src)
                r[self.reg(ops[0])] = mem.load(sp, 1, src)
            elif mn == 'in':
                port = parse_int(ops[1])
                v = {0x3d: sp & 0xff, 0x3e: sp >> 8, 0x3f: (I << 7) | (T << 6) | ((N ^ V) << 4) | (V << 3) | (N << 2) | (Z << 1) | C}.get(port)
                if v is None:
                    raise Unsupported('in from port 0x%x' % port)
                r[self.reg(ops[0])] = v
            elif mn == 'out':
                port, v = parse_int(ops[0]), r[self.reg(ops[1])]
                if port == 0x3d:
                    sp = (sp & 0xff00) | v
                elif port == 0x3e:
                    if I:
                        problems.append(('stack-pointer-update-with-interrupts-enabled', src))
                    sp = (sp & 0x00ff) | (v << 8)
                elif port == 0x3f:
                    I, T, V, N, Z, C = v >> 7, (v >> 6) & 1, (v >> 3) & 1, (v >> 2) & 1, (v >> 1) & 1, v & 1
                else:
                    raise Unsupported('out to port 0x%x' % port)
            elif mn == 'cli':
                I = 0
            elif mn == 'cpse':
                if r[self.reg(ops[0])] == r[self.reg(ops[1])]:
                    skip = True
            elif mn in ('sbrc', 'sbrs'):
                bit = (r[self.reg(ops[0])] >> parse_int(ops[1])) & 1
                if bit == (1 if mn == 'sbrs' else 0):
                    skip = True
            elif mn in ('sei', 'sec', 'clc', 'sez', 'clz', 'set', 'clt'):
                if mn == 'sei':
                    I = 1
                elif mn in ('sec', 'clc'):
                    C = int(mn == 'sec')
                elif mn in ('sez', 'clz'):
                    Z = int(mn == 'sez')
                else:
                    T = int(mn == 'set')
            elif mn in ('breq', 'brne', 'brcs', 'brcc', 'brlo', 'brsh', 'brmi', 'brpl', 'brge', 'brlt', 'brts', 'brtc', 'brvs', 'brvc'):
                take = {'breq': Z == 1, 'brne': Z == 0, 'brcs': C == 1, 'brlo': C == 1, 'brcc': C == 0, 'brsh': C == 0, 'brmi': N == 1, 'brpl': N == 0,
                        'brge': (N ^ V) == 0, 'brlt': (N ^ V) == 1, 'brts': T == 1, 'brtc': T == 0, 'brvs': V == 1, 'brvc': V == 0}[mn]
                if take:
                    npc = prog.resolve(ops[0], pc)
            elif mn in ('rjmp', 'jmp'):
                npc = prog.resolve(ops[0], pc)
            elif mn == 'ret':
                hi, lo = mem.load((sp + 1) & 0xffff, 1, src), mem.load((sp + 2) & 0xffff, 1, src)
                if sp != sp_entry or (hi << 8 | lo) != RET:
                    problems.append(('return-address', 'ret with SP=0x%x (entry 0x%x) to 0x%04x' % (sp, sp_entry, hi << 8 | lo)))
                sp = (sp + 2) & 0xffff
                break
            else:
                raise Unsupported('mnemonic %r in: %s' % (mn, src))
            pc = npc
        for i in list(range(2, 18)) + [28, 29]:
            if r[i] != sent[i]:
                problems.append(('callee-saved-r%d' % i, 'r%d = 0x%02x on return, 0x%02x on entry' % (i, r[i], sent[i])))
        if r[1] != 0:
            problems.append(('zero-register-r1', 'r1 = 0x%02x on return' % r[1]))
        if sp != sp_entry + 2:
            problems.append(('callee-saved-sp', 'SP = 0x%x after ret, expected 0x%x' % (sp, sp_entry + 2)))
        if I != 1:
            problems.append(('interrupt-flag', 'global interrupt flag not restored'))
        frame = 0 if mem.frame_low is None else sp_entry + 1 - mem.frame_low
        pres = bytes(mem.region('preserve')[2]) if preserve is not None else None
        return bytes(mem.region('state')[2]), pres, problems, n, frame

    # plain permutation: same calling convention as the other engines
    def call(self, prog, entry, state_mem, first_round):
        st, _, problems, n, frame = self.run(prog, entry, state_mem, first_round)
        return st, problems, n, frame


def masked_runner(t, prog, res, rng, thorough):
    """x2 / x3 permutation: shares are plain XOR shares of the canonical bytes (direct-XOR word backend)"""
    import ascon_py
    from emucore import Violation as V
    import props_states
    eng, shares, stride, entry = t['engine'], t['shares'], t['stride'], t['entries'][0]
    for cls, st in props_states.states(rng, 12 if thorough else 3):
        for fr in range(12):
            res['calls'] += 1
            res['distinct'].add('%s|round%d|%s' % (t['name'], fr, cls))
            sh = [bytes(rng.getrandbits(8) for _ in range(40)) for _ in range(shares - 1)]
            if cls == 'zero':
                sh = [bytes(40) for _ in range(shares - 1)]
            first = bytes(a ^ __import__('functools').reduce(lambda x, y: x ^ y, [s[i] for s in sh], 0) for i, a in enumerate(st))
            allsh = [first] + sh
            mem = bytearray(5 * stride)
            for w in range(5):
                for k in range(shares):
                    mem[w * stride + 8 * k:w * stride + 8 * k + 8] = allsh[k][8 * w:8 * w + 8]
                for k in range(shares * 8, stride):
                    mem[w * stride + k] = 0xEE                      # the unused share slots must not be touched
            pres = bytes(rng.getrandbits(8) for _ in range(8 * (shares - 1)))
            try:
                out, pres2, problems, n, frame = eng.run(prog, entry, bytes(mem), fr, preserve=pres)
            except V as v:
                res['violations'].append(('emu:%s:%s' % (t['name'], v.kind), {'first_round': fr, 'state': st.hex(), 'detail': v.detail}))
                continue
            res['insns'] += n
            res['max_frame'] = max(res['max_frame'], frame)
            val = bytearray(40)
            for w in range(5):
                for k in range(shares):
                    for j in range(8):
                        val[8 * w + j] ^= out[w * stride + 8 * k + j]
                for k in range(shares * 8, stride):
                    if out[w * stride + k] != 0xEE:
                        res['violations'].append(('emu:%s:write-to-unused-share' % t['name'], {'first_round': fr, 'word': w, 'offset': k}))
            exp = ascon_py.permute_bytes(st, fr)
            if bytes(val) != exp:
                res['violations'].append(('emu:%s:permutation:round%d' % (t['name'], fr), {'first_round': fr, 'state': st.hex(), 'got': bytes(val).hex(), 'expected': exp.hex()}))
            for kind, detail in problems:
                res['violations'].append(('emu:%s:%s' % (t['name'], kind), {'first_round': fr, 'detail': detail}))
    return res


def targets():
    return [
        dict(name='avr5', file='src/core/ascon-asm-avr5.S', defines=['__AVR__=1', '__AVR_ARCH__=5'], layout='bytes', big=False, engine=AVR(), comment=';', insn_size=2),
        dict(name='avr5-x2', file='src/masking/ascon-x2-asm-avr5.S', defines=['__AVR__=1', '__AVR_ARCH__=5', 'ASCON_MASKED_MAX_SHARES=3'], engine=AVR(), comment=';', insn_size=2,
             entries=['ascon_x2_permute'], runner=masked_runner, shares=2, stride=24, layout='bytes', big=False),
        dict(name='avr5-x2-max2', file='src/masking/ascon-x2-asm-avr5.S', defines=['__AVR__=1', '__AVR_ARCH__=5', 'ASCON_MASKED_MAX_SHARES=2'], engine=AVR(), comment=';', insn_size=2,
             entries=['ascon_x2_permute'], runner=masked_runner, shares=2, stride=16, layout='bytes', big=False),
        dict(name='avr5-x3', file='src/masking/ascon-x3-asm-avr5.S', defines=['__AVR__=1', '__AVR_ARCH__=5', 'ASCON_MASKED_MAX_SHARES=3'], engine=AVR(), comment=';', insn_size=2,
             entries=['ascon_x3_permute'], runner=masked_runner, shares=3, stride=24, layout='bytes', big=False),
    ]
