"""ARM A32 / Thumb-1 / Thumb-2 interpreter (unified syntax): ARMv6 (ARM mode), ARMv6-M (Thumb-1), ARMv7-M (Thumb-2).
Covers what the generators emit plus the common data-processing, load/store (single, dual, multiple, byte/half, pre/post-index),
compare/branch and bit-field instructions with full NZCV flags and condition suffixes, so that a rewrite of the same function
is decided rather than left inconclusive.  Anything else is Unsupported (inconclusive), never guessed."""
import re
from emucore import Memory, Program, Unsupported, Violation, parse_int, STATE_BASE, STACK_TOP, STACK_SIZE, RET_SENTINEL

REG = {('r%d' % i): i for i in range(16)}
REG.update({'sb': 9, 'sl': 10, 'fp': 11, 'ip': 12, 'sp': 13, 'lr': 14, 'pc': 15})
M = 0xffffffff
CALLEE_SAVED = [4, 5, 6, 7, 8, 9, 10, 11, 13]

CONDS = {'eq': lambda N, Z, C, V: Z == 1, 'ne': lambda N, Z, C, V: Z == 0, 'cs': lambda N, Z, C, V: C == 1, 'hs': lambda N, Z, C, V: C == 1,
         'cc': lambda N, Z, C, V: C == 0, 'lo': lambda N, Z, C, V: C == 0, 'mi': lambda N, Z, C, V: N == 1, 'pl': lambda N, Z, C, V: N == 0,
         'vs': lambda N, Z, C, V: V == 1, 'vc': lambda N, Z, C, V: V == 0, 'hi': lambda N, Z, C, V: C == 1 and Z == 0,
         'ls': lambda N, Z, C, V: not (C == 1 and Z == 0), 'ge': lambda N, Z, C, V: N == V, 'lt': lambda N, Z, C, V: N != V,
         'gt': lambda N, Z, C, V: Z == 0 and N == V, 'le': lambda N, Z, C, V: not (Z == 0 and N == V), 'al': lambda N, Z, C, V: True}
DP = ('and', 'eor', 'sub', 'rsb', 'add', 'adc', 'sbc', 'orr', 'bic', 'orn', 'mov', 'mvn', 'lsl', 'lsr', 'asr', 'ror', 'neg')
CMP = ('tst', 'teq', 'cmp', 'cmn')
MEM = ('ldrd', 'strd', 'ldrb', 'strb', 'ldrh', 'strh', 'ldrsb', 'ldrsh', 'ldr', 'str')
MULTI = ('ldmia', 'ldmfd', 'ldmdb', 'ldm', 'stmia', 'stmea', 'stmdb', 'stmfd', 'stm', 'push', 'pop')
OTHER = ('adr', 'nop', 'uxtb', 'uxth', 'sxtb', 'sxth', 'rev', 'ubfx', 'sbfx', 'movw', 'movt', 'cbz', 'cbnz', 'bx', 'blx', 'bl')


def ror32(v, n):
    n &= 31
    return ((v >> n) | (v << (32 - n))) & M if n else v & M


def sx(v, bits):
    v &= (1 << bits) - 1
    return v - (1 << bits) if v >> (bits - 1) else v


def decode(mn):
    """-> (base, setflags, cond) or None"""
    mn = mn.lower()
    for suf in ('.w', '.n'):
        if mn.endswith(suf):
            mn = mn[:-2]
    if mn in ('b',):
        return 'b', False, 'al'
    if mn[0] == 'b' and mn[1:] in CONDS:
        return 'b', False, mn[1:]
    if re.fullmatch(r'i[te]{1,4}', mn):
        return 'it', False, 'al'
    for group in (MULTI, MEM, CMP, DP, OTHER):
        for base in sorted(group, key=len, reverse=True):
            if mn.startswith(base):
                rest = mn[len(base):]
                s = False
                if group is DP and rest.startswith('s') and rest[1:] in ('',) + tuple(CONDS):
                    s, rest = True, rest[1:]
                if rest == '':
                    return base, s or group is CMP, 'al'
                if rest in CONDS:
                    return base, s or group is CMP, rest
    return None


class ARM:
    def __init__(self, thumb1=False):
        self.thumb1 = thumb1        # Thumb-1: most data-processing instructions exist only in their flag-setting form

    def reg(self, s):
        s = s.strip().lower()
        if s not in REG:
            raise Unsupported('register %r' % s)
        return REG[s]

    def reglist(self, s):
        s = s.strip()
        if not (s.startswith('{') and s.endswith('}')):
            raise Unsupported('register list %r' % s)
        out = []
        for part in s[1:-1].split(','):
            part = part.strip()
            if '-' in part:
                a, b = part.split('-')
                out += list(range(self.reg(a), self.reg(b) + 1))
            else:
                out.append(self.reg(part))
        return sorted(out)

    def is_imm(self, s):
        s = s.strip()
        return s.startswith('#') or re.fullmatch(r'-?(0x)?[0-9a-fA-F]+', s) is not None

    def shifted(self, x, v, spec, C):
        """-> (value, carry out)"""
        m = re.fullmatch(r'(ror|lsl|lsr|asr)\s*(#?-?\w+)', spec.strip().lower())
        if spec.strip().lower() == 'rrx':
            return ((C << 31) | (v >> 1)) & M, v & 1
        if not m:
            raise Unsupported('shifted operand %r' % spec)
        kind, amt = m.group(1), m.group(2)
        n = parse_int(amt) if self.is_imm(amt) else (x[self.reg(amt)] & 0xff)
        return self.shift(kind, v, n, C)

    def shift(self, kind, v, n, C):
        v &= M
        if n == 0:
            return v, C
        if kind == 'lsl':
            return ((v << n) & M if n < 32 else 0), ((v >> (32 - n)) & 1 if n <= 32 else 0)
        if kind == 'lsr':
            return (v >> n if n < 32 else 0), ((v >> (n - 1)) & 1 if n <= 32 else 0)
        if kind == 'asr':
            if n >= 32:
                return (M if v >> 31 else 0), v >> 31
            return (sx(v, 32) >> n) & M, (v >> (n - 1)) & 1
        r = ror32(v, n)
        return r, r >> 31

    def operand2(self, x, ops, C):
        """flexible second operand -> (value, shifter carry)"""
        if self.is_imm(ops[0]):
            return parse_int(ops[0]) & M, C
        v = x[self.reg(ops[0])]
        if len(ops) > 1:
            return self.shifted(x, v, ops[1], C)
        return v, C

    def address(self, x, ops):
        """ops: memory operand and what follows -> (address, writeback reg or None, new base)"""
        s = ops[0].strip()
        m = re.fullmatch(r'\[\s*(\w+)\s*(?:,\s*([^\]]+?)\s*)?\](!?)', s)
        if not m:
            raise Unsupported('addressing mode %r' % s)
        b = self.reg(m.group(1))
        base = x[b]
        off = 0
        if m.group(2):
            parts = [p.strip() for p in m.group(2).split(',')]
            if self.is_imm(parts[0]):
                off = parse_int(parts[0])
            else:
                neg = parts[0].startswith('-')
                off = x[self.reg(parts[0].lstrip('+-'))]
                if len(parts) > 1:
                    off, _ = self.shifted(x, off, parts[1], 0)
                if neg:
                    off = -off
        if m.group(3) == '!':
            a = (base + off) & M
            return a, b, a
        if len(ops) > 1 and not m.group(2):       # post-index
            post = ops[1].strip()
            if self.is_imm(post):
                d = parse_int(post)
            else:
                d = x[self.reg(post.lstrip('+-'))] * (-1 if post.startswith('-') else 1)
            return base & M, b, (base + d) & M
        return (base + off) & M, None, None

    def call(self, prog, entry, state_mem, first_round, max_insn=400000):
        mem = Memory(big_endian=False)
        mem.add('state', STATE_BASE, state_mem)
        mem.add('stack', STACK_TOP - STACK_SIZE, bytes(STACK_SIZE))
        for a, b in prog.text_data_bytes():
            mem.add('text-data@%x' % a, a, b, writable=False)
        x = [(0x5a5a0000 + r * 0x01010101) & M for r in range(16)]
        sent = list(x)
        x[13] = sent[13] = STACK_TOP
        x[14] = RET_SENTINEL
        x[0], x[1] = STATE_BASE, first_round
        pc = prog.labels[entry]
        N = Z = C = V = 0
        n = 0
        problems = []
        done = False

        def addc(a, b, cin):
            a &= M
            b &= M
            full = a + b + cin
            r = full & M
            return r, (r >> 31, int(r == 0), int(full > M), ((a ^ r) & (b ^ r)) >> 31 & 1)

        def branch_to_addr(a):
            a &= ~1
            if a == RET_SENTINEL:
                return None
            if a not in prog.index_at:
                raise Violation('control-flow', 'jump to 0x%x which is not an instruction' % a)
            return prog.index_at[a]

        def check(addr, size, src, store):
            if addr % size:
                raise Violation('misaligned-access', '%s at 0x%x' % (src, addr))
            if STACK_TOP - STACK_SIZE <= addr < x[13]:
                raise Violation('access-below-stack-pointer', '%s touches 0x%x while sp = 0x%x' % (src, addr, x[13]))
            if store and STACK_TOP <= addr < STACK_TOP + 0x1000:
                raise Violation('write-outside-allowed-memory', '%s stores above the entry stack pointer (caller frame)' % src)

        while not done:
            if n >= max_insn:
                raise Violation('no-return', 'more than %d instructions executed' % max_insn)
            if pc < 0 or pc >= len(prog.insns):
                raise Violation('control-flow', 'execution ran off the code')
            mn, ops, src = prog.insns[pc]
            n += 1
            npc = pc + 1
            d = decode(mn)
            if d is None:
                raise Unsupported('mnemonic %r in: %s' % (mn, src))
            base, sflag, cond = d
            if base == 'it':
                pc = npc
                continue                      # the following instructions carry their own condition suffix
            if not CONDS[cond](N, Z, C, V):
                pc = npc
                continue
            if base in DP:
                rd = self.reg(ops[0])
                if base in ('mov', 'mvn'):
                    v, sc = self.operand2(x, ops[1:], C)
                    if base == 'mvn':
                        v = ~v & M
                    fl = (v >> 31, int(v == 0), sc, V)
                elif base in ('lsl', 'lsr', 'asr', 'ror'):
                    if len(ops) == 2:
                        a, amt = x[rd], ops[1]
                    else:
                        a, amt = x[self.reg(ops[1])], ops[2]
                    sh = parse_int(amt) if self.is_imm(amt) else (x[self.reg(amt)] & 0xff)
                    if self.is_imm(amt) and not 0 <= sh <= 32:
                        raise Violation('encoding', 'shift amount out of range in: %s' % src)
                    v, sc = self.shift(base, a, sh, C)
                    fl = (v >> 31, int(v == 0), sc, V)
                elif base == 'neg':
                    v, fl = addc(~x[self.reg(ops[1])] & M, 0, 1)
                else:
                    if len(ops) == 2:
                        a, (b, sc) = x[rd], self.operand2(x, ops[1:], C)
                    else:
                        a, (b, sc) = x[self.reg(ops[1])], self.operand2(x, ops[2:], C)
                    if base in ('and', 'eor', 'orr', 'bic', 'orn'):
                        v = a & b if base == 'and' else a ^ b if base == 'eor' else a | b if base == 'orr' else a & ~b if base == 'bic' else a | (~b & M)
                        v &= M
                        fl = (v >> 31, int(v == 0), sc, V)
                    elif base == 'add':
                        v, fl = addc(a, b, 0)
                    elif base == 'adc':
                        v, fl = addc(a, b, C)
                    elif base == 'sub':
                        v, fl = addc(a, ~b & M, 1)
                    elif base == 'sbc':
                        v, fl = addc(a, ~b & M, C)
                    else:    # rsb
                        v, fl = addc(b, ~a & M, 1)
                if sflag:
                    N, Z, C, V = fl
                if rd == 15:
                    t = branch_to_addr(v)
                    if t is None:
                        break
                    npc = t
                else:
                    x[rd] = v & M
            elif base in CMP:
                a, (b, sc) = x[self.reg(ops[0])], self.operand2(x, ops[1:], C)
                if base == 'cmp':
                    _, (N, Z, C, V) = addc(a, ~b & M, 1)
                elif base == 'cmn':
                    _, (N, Z, C, V) = addc(a, b, 0)
                else:
                    v = (a & b) if base == 'tst' else (a ^ b)
                    N, Z, C = v >> 31, int(v & M == 0), sc
            elif base == 'b':
                if ops[0] not in prog.labels:
                    raise Unsupported('branch target %r' % ops[0])
                npc = prog.labels[ops[0]]
            elif base == 'bl':
                raise Unsupported('call: %s' % src)
            elif base in ('cbz', 'cbnz'):
                if ops[1] not in prog.labels:
                    raise Unsupported('branch target %r' % ops[1])
                if (x[self.reg(ops[0])] == 0) == (base == 'cbz'):
                    npc = prog.labels[ops[1]]
            elif base == 'adr':
                if ops[1] not in prog.label_addr:
                    raise Unsupported('adr target %r' % ops[1])
                x[self.reg(ops[0])] = prog.label_addr[ops[1]]
            elif base == 'nop':
                pass
            elif base in ('uxtb', 'uxth', 'sxtb', 'sxth'):
                w = 8 if base.endswith('b') else 16
                v = x[self.reg(ops[1])]
                if len(ops) > 2:
                    v, _ = self.shifted(x, v, ops[2], 0)
                x[self.reg(ops[0])] = (v & ((1 << w) - 1)) if base[0] == 'u' else sx(v, w) & M
            elif base == 'rev':
                x[self.reg(ops[0])] = int.from_bytes(x[self.reg(ops[1])].to_bytes(4, 'little'), 'big')
            elif base in ('ubfx', 'sbfx'):
                lsb, w = parse_int(ops[2]), parse_int(ops[3])
                v = (x[self.reg(ops[1])] >> lsb) & ((1 << w) - 1)
                x[self.reg(ops[0])] = v if base == 'ubfx' else sx(v, w) & M
            elif base in ('movw', 'movt'):
                imm = parse_int(ops[1])
                if not 0 <= imm <= 0xffff:
                    raise Violation('encoding', 'immediate out of range in: %s' % src)
                rd = self.reg(ops[0])
                x[rd] = imm if base == 'movw' else (x[rd] & 0xffff) | (imm << 16)
            elif base in MEM:
                dual = base in ('ldrd', 'strd')
                load = base.startswith('ld')
                size = 1 if base.rstrip('s')[-1] == 'b' or base in ('ldrsb',) else 2 if base in ('ldrh', 'strh', 'ldrsh') else 4
                regs = [self.reg(ops[0])] + ([self.reg(ops[1])] if dual else [])
                addr, wb, nb = self.address(x, ops[2 if dual else 1:])
                if wb is not None and addr == nb and nb != x[wb]:
                    x[wb] = nb          # pre-index: base updated first (a push by str rX, [sp, #-4]! is a legal frame)
                    wb = None
                for i, r in enumerate(regs):
                    a = (addr + 4 * i) & M
                    check(a, size, src, not load)
                    if load:
                        v = mem.load(a, size, src)
                        if base in ('ldrsb', 'ldrsh'):
                            v = sx(v, 8 * size) & M
                        if r == 15:
                            t = branch_to_addr(v)
                            if t is None:
                                done = True
                            else:
                                npc = t
                        else:
                            x[r] = v
                    else:
                        mem.store(a, size, x[r] & ((1 << (8 * size)) - 1), src)
                if wb is not None:
                    x[wb] = nb
            elif base in MULTI:
                if base in ('push', 'pop'):
                    b, wback = 13, True
                    regs = self.reglist(ops[0] if len(ops) == 1 else ','.join(ops))
                    kind = 'stmdb' if base == 'push' else 'ldmia'
                else:
                    bs = ops[0].strip()
                    wback = bs.endswith('!')
                    b = self.reg(bs.rstrip('!'))
                    regs = self.reglist(','.join(ops[1:]))
                    kind = {'ldm': 'ldmia', 'ldmfd': 'ldmia', 'stm': 'stmia', 'stmea': 'stmia', 'stmfd': 'stmdb'}.get(base, base)
                cnt = 4 * len(regs)
                start = (x[b] - cnt) & M if kind.endswith('db') else x[b]
                newb = (x[b] - cnt) & M if kind.endswith('db') else (x[b] + cnt) & M
                if kind.startswith('stm') and b == 13 and kind.endswith('db') and wback:
                    x[13] = newb            # push: the stack pointer moves first
                for i, r in enumerate(regs):
                    a = (start + 4 * i) & M
                    check(a, 4, src, kind.startswith('stm'))
                    if kind.startswith('ldm'):
                        v = mem.load(a, 4, src)
                        if r == 15:
                            if (v & ~1) != RET_SENTINEL:
                                problems.append(('return-address', 'pop {pc} returns to 0x%x, not to the caller' % v))
                            done = True
                        else:
                            x[r] = v
                    else:
                        mem.store(a, 4, x[r], src)
                if wback and not (kind.startswith('ldm') and b in regs):
                    x[b] = newb
            elif base in ('bx', 'blx'):
                if base == 'blx':
                    raise Unsupported('call: %s' % src)
                if (x[self.reg(ops[0])] & ~1) != RET_SENTINEL:
                    problems.append(('return-address', 'bx returns to 0x%x' % x[self.reg(ops[0])]))
                break
            else:
                raise Unsupported('mnemonic %r in: %s' % (mn, src))
            pc = npc
        for r in CALLEE_SAVED:
            if x[r] != sent[r]:
                problems.append(('callee-saved-' + ('sp' if r == 13 else 'r%d' % r), 'r%d = 0x%x on return, 0x%x on entry' % (r, x[r], sent[r])))
        frame = 0 if mem.frame_low is None else STACK_TOP - mem.frame_low
        return bytes(mem.region('state')[2]), problems, n, frame


def targets():
    return [
        dict(name='armv6', file='src/core/ascon-asm-armv6.S', defines=['__ARM_ARCH=6'], layout='sliced32', big=False, engine=ARM(), comment='@', insn_size=4),
        dict(name='armv6m', file='src/core/ascon-asm-armv6m.S', defines=['__ARM_ARCH_ISA_THUMB=1', '__ARM_ARCH=6', '__ARM_ARCH_6M__=1'], layout='sliced32', big=False,
             engine=ARM(thumb1=True), comment='@', insn_size=2),
        dict(name='armv7m', file='src/core/ascon-asm-armv7m.S', defines=['__ARM_ARCH_ISA_THUMB=2', '__ARM_ARCH=7'], layout='sliced32', big=False, engine=ARM(), comment='@', insn_size=4),
    ]
