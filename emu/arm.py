"""ARM A32 / Thumb-1 / Thumb-2 interpreter (unified syntax) for the subset the generators emit:
ARMv6 (ARM mode), ARMv6-M (Thumb-1), ARMv7-M (Thumb-2)."""
import re
from emucore import Memory, Program, Unsupported, Violation, parse_int, STATE_BASE, STACK_TOP, STACK_SIZE, RET_SENTINEL

REG = {('r%d' % i): i for i in range(16)}
REG.update({'sb': 9, 'sl': 10, 'fp': 11, 'ip': 12, 'sp': 13, 'lr': 14, 'pc': 15})
M = 0xffffffff
CALLEE_SAVED = [4, 5, 6, 7, 8, 9, 10, 11, 13]


def ror32(v, n):
    n &= 31
    return ((v >> n) | (v << (32 - n))) & M if n else v


class ARM:
    def __init__(self, thumb1=False):
        self.thumb1 = thumb1        # Thumb-1: low registers only for most data processing

    def reg(self, s):
        s = s.strip().lower()
        if s not in REG:
            raise Unsupported('register %r' % s)
        return REG[s]

    def reglist(self, s):
        s = s.strip()
        if not (s.startswith('{') and s.endswith('}')):
            raise Unsupported('register list %r' % s)
        out = []
        for part in s[1:-1].split(','):
            part = part.strip()
            if '-' in part:
                a, b = part.split('-')
                out += list(range(self.reg(a), self.reg(b) + 1))
            else:
                out.append(self.reg(part))
        return sorted(out)

    def operand2(self, x, ops):
        """flexible second operand: #imm | reg | reg, ror #n | reg, lsl #n ..."""
        if ops[0].startswith('#'):
            return parse_int(ops[0]) & M
        v = x[self.reg(ops[0])]
        if len(ops) > 1:
            m = re.fullmatch(r'(ror|lsl|lsr)\s*#(\d+)', ops[1].strip().lower())
            if not m:
                raise Unsupported('shifted operand %r' % ops[1])
            n = int(m.group(2))
            if m.group(1) == 'ror':
                v = ror32(v, n)
            elif m.group(1) == 'lsl':
                v = (v << n) & M
            else:
                v = v >> n
        return v

    def call(self, prog, entry, state_mem, first_round, max_insn=400000):
        mem = Memory(big_endian=False)
        mem.add('state', STATE_BASE, state_mem)
        mem.add('stack', STACK_TOP - STACK_SIZE, bytes(STACK_SIZE))
        for a, b in prog.text_data_bytes():
            mem.add('text-data@%x' % a, a, b, writable=False)
        x = [(0x5a5a0000 + r * 0x01010101) & M for r in range(16)]
        sent = list(x)
        x[13] = sent[13] = STACK_TOP
        x[14] = RET_SENTINEL
        x[0], x[1] = STATE_BASE, first_round
        pc = prog.labels[entry]
        Z = C = N = 0
        n = 0
        problems = []

        def setnz(v):
            nonlocal Z, N
            Z, N = int(v & M == 0), (v >> 31) & 1

        def branch_to_addr(a):
            a &= ~1
            if a == RET_SENTINEL:
                return None
            if a not in prog.index_at:
                raise Violation('control-flow', 'jump to 0x%x which is not an instruction' % a)
            return prog.index_at[a]

        while True:
            if n >= max_insn:
                raise Violation('no-return', 'more than %d instructions executed' % max_insn)
            if pc < 0 or pc >= len(prog.insns):
                raise Violation('control-flow', 'execution ran off the code')
            mn, ops, src = prog.insns[pc]
            n += 1
            npc = pc + 1
            base = mn[:-1] if mn.endswith('s') and mn not in ('bics',) and mn[:-1] in ('eor', 'mov', 'mvn', 'and', 'ror', 'lsl', 'lsr', 'bic', 'add', 'sub', 'orr') else mn
            sflag = base != mn
            if base in ('eor', 'and', 'bic', 'orr', 'add', 'sub'):
                rd = self.reg(ops[0])
                if len(ops) == 2:
                    a, b = x[rd], self.operand2(x, ops[1:])
                else:
                    a, b = x[self.reg(ops[1])], self.operand2(x, ops[2:])
                if base == 'eor':
                    v = a ^ b
                elif base == 'and':
                    v = a & b
                elif base == 'bic':
                    v = a & ~b
                elif base == 'orr':
                    v = a | b
                elif base == 'add':
                    v = a + b
                else:
                    v = a - b
                v &= M
                if rd == 15:
                    t = branch_to_addr(v)
                    if t is None:
                        break
                    npc = t
                else:
                    x[rd] = v
                if sflag:
                    setnz(v)
            elif base in ('mov', 'mvn'):
                rd = self.reg(ops[0])
                v = self.operand2(x, ops[1:])
                if base == 'mvn':
                    v = ~v & M
                if sflag:
                    setnz(v)
                if rd == 15:
                    t = branch_to_addr(v)
                    if t is None:
                        break
                    npc = t
                else:
                    x[rd] = v
            elif base in ('ror', 'lsl', 'lsr'):
                rd = self.reg(ops[0])
                if len(ops) == 2:
                    a, amt = x[rd], ops[1]
                else:
                    a, amt = x[self.reg(ops[1])], ops[2]
                sh = parse_int(amt) if amt.startswith('#') else (x[self.reg(amt)] & 0xff)
                if base == 'ror':
                    v = ror32(a, sh)
                    if sh:
                        C = (v >> 31) & 1
                elif base == 'lsl':
                    v = (a << sh) & M if sh < 32 else 0
                    if 0 < sh <= 32:
                        C = (a >> (32 - sh)) & 1
                else:
                    v = a >> sh if sh < 32 else 0
                x[rd] = v
                if sflag:
                    setnz(v)
            elif mn == 'cmp':
                a, b = x[self.reg(ops[0])], self.operand2(x, ops[1:])
                r = (a - b) & M
                Z, N, C = int(r == 0), r >> 31, int(a >= b)
            elif mn in ('beq', 'bne', 'bhi', 'bls', 'b', 'bl', 'bcs', 'bcc'):
                take = {'beq': Z == 1, 'bne': Z == 0, 'bhi': C == 1 and Z == 0, 'bls': C == 0 or Z == 1, 'bcs': C == 1, 'bcc': C == 0, 'b': True, 'bl': True}[mn]
                tgt = ops[0]
                if tgt not in prog.labels:
                    raise Unsupported('branch target %r' % tgt)
                if mn == 'bl':
                    x[14] = (prog.addr[pc] + prog.insn_size) | 1
                if take:
                    npc = prog.labels[tgt]
            elif mn == 'adr':
                if ops[1] not in prog.label_addr:
                    raise Unsupported('adr target %r' % ops[1])
                x[self.reg(ops[0])] = prog.label_addr[ops[1]]
            elif mn in ('ldr', 'str'):
                rt = self.reg(ops[0])
                m = re.fullmatch(r'\[\s*(\w+)\s*(?:,\s*(#?-?\w+)\s*)?\]', ops[1].strip())
                if not m:
                    raise Unsupported('addressing mode %r' % ops[1])
                b = self.reg(m.group(1))
                off = 0
                if m.group(2):
                    o = m.group(2)
                    off = parse_int(o) if (o.startswith('#') or re.fullmatch(r'-?\d+', o)) else x[self.reg(o)]
                addr = (x[b] + off) & M
                if addr % 4:
                    raise Violation('misaligned-access', '%s at 0x%x' % (src, addr))
                if STACK_TOP - STACK_SIZE <= addr < x[13]:
                    raise Violation('access-below-stack-pointer', '%s touches 0x%x while sp = 0x%x' % (src, addr, x[13]))
                if mn == 'ldr':
                    x[rt] = mem.load(addr, 4, src)
                else:
                    if addr >= STACK_TOP and addr < STACK_TOP + 0x1000:
                        raise Violation('write-outside-allowed-memory', '%s stores above the entry stack pointer (caller frame)' % src)
                    mem.store(addr, 4, x[rt], src)
            elif mn == 'push':
                regs = self.reglist(ops[0] if len(ops) == 1 else ','.join(ops))
                x[13] = (x[13] - 4 * len(regs)) & M
                for i, r in enumerate(regs):
                    mem.store(x[13] + 4 * i, 4, x[r], src)
            elif mn == 'pop':
                regs = self.reglist(ops[0] if len(ops) == 1 else ','.join(ops))
                done = False
                for i, r in enumerate(regs):
                    v = mem.load(x[13] + 4 * i, 4, src)
                    if r == 15:
                        if (v & ~1) != RET_SENTINEL:
                            problems.append(('return-address', 'pop {pc} returns to 0x%x, not to the caller' % v))
                        done = True
                    else:
                        x[r] = v
                x[13] = (x[13] + 4 * len(regs)) & M
                if done:
                    break
            elif mn == 'bx':
                if (x[self.reg(ops[0])] & ~1) != RET_SENTINEL:
                    problems.append(('return-address', 'bx returns to 0x%x' % x[self.reg(ops[0])]))
                break
            else:
                raise Unsupported('mnemonic %r in: %s' % (mn, src))
            pc = npc
        for r in CALLEE_SAVED:
            if x[r] != sent[r]:
                problems.append(('callee-saved-' + ('sp' if r == 13 else 'r%d' % r), 'r%d = 0x%x on return, 0x%x on entry' % (r, x[r], sent[r])))
        frame = 0 if mem.frame_low is None else STACK_TOP - mem.frame_low
        return bytes(mem.region('state')[2]), problems, n, frame


def targets():
    return [
        dict(name='armv6', file='src/core/ascon-asm-armv6.S', defines=['__ARM_ARCH=6'], layout='sliced32', big=False, engine=ARM(), comment='@', insn_size=4),
        dict(name='armv6m', file='src/core/ascon-asm-armv6m.S', defines=['__ARM_ARCH_ISA_THUMB=1', '__ARM_ARCH=6', '__ARM_ARCH_6M__=1'], layout='sliced32', big=False,
             engine=ARM(thumb1=True), comment='@', insn_size=2),
        dict(name='armv7m', file='src/core/ascon-asm-armv7m.S', defines=['__ARM_ARCH_ISA_THUMB=2', '__ARM_ARCH=7'], layout='sliced32', big=False, engine=ARM(), comment='@', insn_size=4),
    ]
