"""m68k (68020+ and ColdFire variant) interpreter for the subset emitted by tools/genm68k."""
import re
from emucore import Memory, Unsupported, Violation, parse_int, STATE_BASE, STACK_TOP, STACK_SIZE, RET_SENTINEL

M = 0xffffffff


class M68K:
    def call(self, prog, entry, state_mem, first_round, max_insn=400000):
        mem = Memory(big_endian=True)
        sp_entry = STACK_TOP - 16
        mem.add('state', STATE_BASE, state_mem)
        mem.add('stack', STACK_TOP - STACK_SIZE, bytes(STACK_SIZE - 16))
        args = RET_SENTINEL.to_bytes(4, 'big') + STATE_BASE.to_bytes(4, 'big') + first_round.to_bytes(4, 'big') + b'\xAA' * 4
        mem.add('args', sp_entry, args, writable=False)
        d = [(0x5a5a0000 + r * 0x01010101) & M for r in range(8)]
        a = [(0x6b6b0000 + r * 0x01010101) & M for r in range(8)]
        sd, sa = list(d), list(a)
        a[7] = sa[7] = sp_entry
        Z = 0
        pc = prog.labels[entry]
        n = 0
        problems = []

        def isreg(s):
            return re.fullmatch(r'%(d[0-7]|a[0-7]|fp|sp)', s.strip().lower()) is not None

        def rget(s):
            s = s.strip().lower().lstrip('%')
            if s == 'fp':
                return a[6]
            if s == 'sp':
                return a[7]
            return d[int(s[1])] if s[0] == 'd' else a[int(s[1])]

        def rset(s, v):
            s = s.strip().lower().lstrip('%')
            v &= M
            if s == 'fp':
                a[6] = v
            elif s == 'sp':
                a[7] = v
            elif s[0] == 'd':
                d[int(s[1])] = v
            else:
                a[int(s[1])] = v

        def ea(s):
            """address of a memory operand"""
            m = re.fullmatch(r'(-?\w*)\(\s*(%\w+)\s*\)', s.strip().replace(' ', ''))
            if not m:
                raise Unsupported('addressing mode %r' % s)
            return (rget(m.group(2)) + (parse_int(m.group(1)) if m.group(1) else 0)) & M

        def read(s, src):
            s = s.strip()
            if s.startswith('#'):
                return parse_int(s) & M
            if isreg(s):
                return rget(s)
            ad = ea(s)
            if ad % 2:
                raise Violation('misaligned-access', '%s at 0x%x' % (src, ad))
            below_sp(ad, src)
            return mem.load(ad, 4, src)

        def write(s, v, src):
            s = s.strip()
            if isreg(s):
                rset(s, v)
                return
            ad = ea(s)
            if ad % 2:
                raise Violation('misaligned-access', '%s at 0x%x' % (src, ad))
            below_sp(ad, src)
            mem.store(ad, 4, v, src)

        def below_sp(ad, src):
            # the own frame is [sp, entry sp): memory below the current stack pointer is not the function's (interrupts may use it)
            if STACK_TOP - STACK_SIZE <= ad < a[7]:
                raise Violation('access-below-stack-pointer', '%s touches 0x%x while sp = 0x%x' % (src, ad, a[7]))

        def push(v, src):
            a[7] = (a[7] - 4) & M
            mem.store(a[7], 4, v, src)

        while True:
            if n >= max_insn:
                raise Violation('no-return', 'more than %d instructions executed' % max_insn)
            if pc < 0 or pc >= len(prog.insns):
                raise Violation('control-flow', 'execution ran off the code')
            mn, ops, src = prog.insns[pc]
            n += 1
            npc = pc + 1
            if mn in ('move.l', 'movea.l'):
                v = read(ops[0], src)
                write(ops[1], v, src)
                if mn == 'move.l' and not ops[1].strip().lower().startswith('%a'):
                    Z = int(v == 0)
            elif mn == 'moveq.l' or mn == 'moveq':
                imm = parse_int(ops[0])
                if not -128 <= imm <= 127:
                    raise Violation('encoding', 'moveq immediate %d out of range' % imm)
                write(ops[1], imm & M, src)
                Z = int(imm == 0)
            elif mn in ('eor.l', 'or.l', 'and.l', 'eori.l', 'ori.l', 'andi.l', 'add.l', 'sub.l'):
                x, y = read(ops[0], src), read(ops[1], src)
                if mn == 'eor.l' and not re.fullmatch(r'%d[0-7]', ops[0].strip().lower()):
                    raise Violation('encoding', 'eor.l source must be a data register: %s' % src)
                op = mn[:-2].rstrip('i')
                v = x ^ y if op == 'eor' else x | y if op == 'or' else x & y if op == 'and' else y + x if op == 'add' else y - x
                v &= M
                write(ops[1], v, src)
                Z = int(v == 0)
            elif mn == 'not.l':
                v = ~read(ops[0], src) & M
                write(ops[0], v, src)
                Z = int(v == 0)
            elif mn in ('ror.l', 'rol.l', 'lsr.l', 'lsl.l'):
                if ops[0].startswith('#'):
                    cnt = parse_int(ops[0])
                    if not 1 <= cnt <= 8:
                        raise Violation('encoding', 'immediate shift count %d is not 1..8 in: %s' % (cnt, src))
                else:
                    cnt = rget(ops[0]) & 63
                x = read(ops[1], src)
                if mn == 'ror.l':
                    c = cnt & 31
                    v = ((x >> c) | (x << (32 - c))) & M if c else x
                elif mn == 'rol.l':
                    c = cnt & 31
                    v = ((x << c) | (x >> (32 - c))) & M if c else x
                elif mn == 'lsr.l':
                    v = x >> cnt if cnt < 32 else 0
                else:
                    v = (x << cnt) & M if cnt < 32 else 0
                write(ops[1], v, src)
                Z = int(v == 0)
            elif mn == 'cmpi.l':
                Z = int((read(ops[0], src) & M) == read(ops[1], src))
            elif mn in ('jbeq', 'beq', 'jeq', 'jbne', 'bne', 'jne'):
                take = (Z == 1) if 'eq' in mn else (Z == 0)
                if ops[0] not in prog.labels:
                    raise Unsupported('branch target %r' % ops[0])
                if take:
                    npc = prog.labels[ops[0]]
            elif mn in ('jmp', 'jra', 'bra'):
                if ops[0] not in prog.labels:
                    raise Unsupported('jump target %r' % ops[0])
                npc = prog.labels[ops[0]]
            elif mn == 'link.w' or mn == 'link':
                push(rget(ops[0]), src)
                rset(ops[0], a[7])
                a[7] = (a[7] + parse_int(ops[1])) & M
            elif mn == 'unlk':
                a[7] = rget(ops[0])
                v = mem.load(a[7], 4, src)
                a[7] = (a[7] + 4) & M
                rset(ops[0], v)
            elif mn == 'rts':
                v = mem.load(a[7], 4, src)
                if v != RET_SENTINEL or a[7] != sp_entry:
                    problems.append(('return-address', 'rts with sp=0x%x (entry 0x%x) returns to 0x%x' % (a[7], sp_entry, v)))
                a[7] = (a[7] + 4) & M
                break
            else:
                raise Unsupported('mnemonic %r in: %s' % (mn, src))
            pc = npc
        for r in range(2, 8):
            if d[r] != sd[r]:
                problems.append(('callee-saved-d%d' % r, 'd%d = 0x%x on return, 0x%x on entry' % (r, d[r], sd[r])))
        for r in range(2, 7):
            if a[r] != sa[r]:
                problems.append(('callee-saved-a%d' % r, 'a%d = 0x%x on return, 0x%x on entry' % (r, a[r], sa[r])))
        if a[7] != sp_entry + 4:
            problems.append(('callee-saved-sp', 'sp = 0x%x after rts, expected 0x%x' % (a[7], sp_entry + 4)))
        frame = 0 if mem.frame_low is None else sp_entry - mem.frame_low
        return bytes(mem.region('state')[2]), problems, n, frame


def targets():
    return [
        dict(name='m68k', file='src/core/ascon-asm-m68k.S', defines=['__m68k__=1'], layout='sliced32', big=True, engine=M68K(), comment='|', insn_size=4),
        dict(name='m68k-coldfire', file='src/core/ascon-asm-m68k.S', defines=['__m68k__=1', '__mcoldfire__=1'], layout='sliced32', big=True, engine=M68K(), comment='|', insn_size=4),
    ]
