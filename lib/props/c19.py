"""C19: command-line tools round-trip, detect tampering and fail loudly on I/O errors."""
import props.cli as cli

RULE = ('real asconcrypt/asconsum binaries (release build) run as processes in private directories.  Round trip: sizes {0,1,15,16,17,100,'
        'BUFSIZ-17..BUFSIZ+1, 2*BUFSIZ-16, 2*BUFSIZ, 3*BUFSIZ+5 (+1 MiB thorough)} x {-o, default .ascon naming, -k key file (LF / no LF / '
        'CRLF / second line), stdin/stdout, .decrypted suffix}, passwords 1..1023 bytes incl. blanks and UTF-8; size grows by exactly 96.  '
        'Tamper: a bit flip at every byte (large files: header, SIV block, every 97th byte, tail), every truncation length, appended '
        'bytes, wrong passwords -> non-zero exit and no output file.  I/O faults injected at the system-call level with strace '
        '(each confirmed by its (INJECTED) marker): the k-th write to the output for EVERY k -> ENOSPC, the k-th read of the input for '
        'every k -> EIO, open of the output -> EACCES, the random source unavailable (EVERY getrandom call -> ENOSYS and /dev/urandom, /dev/random unopenable through an LD_PRELOAD shim): non-zero exit and no partial output; a single refused getrandom call (1st, 2nd): fail closed or succeed with an output that decrypts; '
        'EINTR on any of those calls: must succeed with identical content; -g KEYFILE with failing write / random source.  asconsum: '
        '-h -a -x -y and default over 15 files per command line and stdin vs reference digests and the exact output format; -c on '
        'unmodified / CRLF / upper-case / modified / extended / missing / unreadable (EIO) files, wrong digit, malformed and empty '
        'check files: OK set and exit status; distinct = (operation, size, style / fault class)')
ASSUME = ['fault injection through ptrace (strace): the tools run unmodified', 'terminal password prompting is not exercised (needs a tty)']


def run(ctx):
    ctx.rule, ctx.level, ctx.assumptions = RULE, 'fault_enumeration', ASSUME
    cli.run_c19(ctx)
    return ctx.finish()


def replay(ctx, rec):
    return run(ctx)
