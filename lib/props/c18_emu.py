"""C18 monitor 4: instrumented interpreters run the text of the assembly files this host cannot execute."""
import concurrent.futures as cf
import os
import random
import sys
import traceback

import core as vcore
from core import Violation

EMU = os.path.join(vcore.VERIF, 'emu')


def targets():
    sys.path.insert(0, EMU)
    out = []
    try:
        import rv
        out += [
            dict(name='riscv32i', file='src/core/ascon-asm-riscv32i.S', defines=['__riscv=1', '__riscv_xlen=32'], layout='sliced32', big=False, engine=rv.RV(32), comment='#'),
            dict(name='riscv32e', file='src/core/ascon-asm-riscv32e.S', defines=['__riscv=1', '__riscv_xlen=32', '__riscv_32e=1'], layout='sliced32', big=False, engine=rv.RV(32, embedded=True), comment='#'),
            dict(name='riscv64i', file='src/core/ascon-asm-riscv64i.S', defines=['__riscv=1', '__riscv_xlen=64'], layout='sliced64', big=False, engine=rv.RV(64), comment='#'),
        ]
    except ImportError:
        pass
    for mod in ('arm', 'a64', 'xtensa', 'm68k', 'avr'):
        try:
            m = __import__(mod)
            out += m.targets()
        except ImportError:
            pass
    return out


ALL_FILES = ['src/core/ascon-asm-armv6.S', 'src/core/ascon-asm-armv6m.S', 'src/core/ascon-asm-armv7m.S', 'src/core/ascon-asm-armv8a-64.S',
             'src/core/ascon-asm-avr5.S', 'src/masking/ascon-x2-asm-avr5.S', 'src/masking/ascon-x3-asm-avr5.S', 'src/core/ascon-asm-m68k.S',
             'src/core/ascon-asm-riscv32e.S', 'src/core/ascon-asm-riscv32i.S', 'src/core/ascon-asm-riscv64i.S', 'src/core/ascon-asm-xtensa.S']


def states(rng, nrandom):
    out = [('zero', bytes(40)), ('ones', b'\xff' * 40), ('count', bytes(range(40)))]
    for bit in range(0, 320, 37):
        b = bytearray(40)
        b[bit // 8] = 0x80 >> (bit % 8)
        out.append(('onebit', bytes(b)))
    for _ in range(nrandom):
        out.append(('random', bytes(rng.getrandbits(8) for _ in range(40))))
    return out


def run_target(t, seed, thorough):
    """-> dict(name, calls, insns, violations [(key, detail)], unsupported or None, distinct set)"""
    sys.path.insert(0, EMU)
    import emucore as ecore
    import ascon_py
    res = dict(name=t['name'], calls=0, insns=0, violations=[], unsupported=None, distinct=set(), max_frame=0)
    try:
        text = ecore.preprocess(os.path.join(vcore.REPO, t['file']), t['defines'], os.path.join(vcore.REPO, 'src'))
        prog = ecore.Program(text, comment_chars=t.get('comment', '#'), insn_size=t.get('insn_size', 4))
        entries = t.get('entries') or ['ascon_permute']
        for e in entries:
            if e not in prog.labels:
                raise ecore.Unsupported('entry point %s not found after preprocessing (backend not selected?)' % e)
        rng = random.Random(seed * 1000003 + hash(t['name']) % 1000)
        rng = random.Random('%d-%s' % (seed, t['name']))
        runner = t.get('runner')
        if runner:
            return runner(t, prog, res, rng, thorough)
        for cls, st in states(rng, 40 if thorough else 6):
            for fr in range(12):
                res['calls'] += 1
                res['distinct'].add('%s|round%d|%s' % (t['name'], fr, cls))
                mem_in = ecore.to_layout(st, t['layout'], t['big'])
                try:
                    mem_out, problems, n, frame = t['engine'].call(prog, 'ascon_permute', mem_in, fr)
                except ecore.Violation as v:
                    res['violations'].append(('emu:%s:%s' % (t['name'], v.kind), {'first_round': fr, 'state': st.hex(), 'detail': v.detail}))
                    continue
                res['insns'] += n
                res['max_frame'] = max(res['max_frame'], frame)
                out = ecore.from_layout(mem_out, t['layout'], t['big'])
                exp = ascon_py.permute_bytes(st, fr)
                if out != exp:
                    res['violations'].append(('emu:%s:permutation:round%d' % (t['name'], fr), {'first_round': fr, 'state': st.hex(), 'got': out.hex(), 'expected': exp.hex()}))
                for kind, detail in problems:
                    res['violations'].append(('emu:%s:%s' % (t['name'], kind), {'first_round': fr, 'state': st.hex(), 'detail': detail}))
    except ecore.Unsupported as u:
        res['unsupported'] = str(u)
    except Exception:
        res['unsupported'] = 'interpreter error: ' + traceback.format_exc()[-600:]
    return res


def run_emulators(ctx):
    ts = targets()
    done_files = set()
    not_emulated = []
    with cf.ProcessPoolExecutor(max_workers=min(12, max(1, len(ts)))) as ex:
        results = list(ex.map(run_target, ts, [ctx.seed] * len(ts), [ctx.thorough] * len(ts)))
    for t, r in zip(ts, results):
        if r['unsupported']:
            not_emulated.append('%s: %s' % (t['file'], r['unsupported'][:200]))
            ctx.inconclusive.append('interpreter for %s could not run the file: %s' % (t['name'], r['unsupported'][:300]))
            continue
        done_files.add(t['file'])
        ctx.counters['emulated_calls'] = ctx.counters.get('emulated_calls', 0) + r['calls']
        ctx.counters['emulated_instructions'] = ctx.counters.get('emulated_instructions', 0) + r['insns']
        ctx.maxima['frame_bytes_' + t['name']] = r['max_frame']
        ctx.distinct.update(r['distinct'])
        seen = set()
        for key, det in r['violations']:
            if key in seen:
                continue
            seen.add(key)
            det['file'] = t['file']
            ctx.violations.append(Violation('C18', key, det))
    for f in ALL_FILES:
        if f not in done_files and not any(x.startswith(f) for x in not_emulated):
            not_emulated.append(f + ': no interpreter for this ISA yet')
    ctx.extra['files_emulated'] = sorted(done_files)
    ctx.extra['files_not_emulated'] = not_emulated
    if len(ctx.samples) < 6 and results:
        ctx.samples.append({'monitor': 'interpreters', 'emulated': sorted(done_files), 'example': 'riscv32i ascon_permute(state=00 01 .. 27, first_round=4) == reference p^8; s-registers, sp, ra restored; accesses within state + 16-byte frame'})
