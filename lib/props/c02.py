"""C02: decryption inverts, rejects every forgery, wipes (15 families)."""
from core import Cfg
from props._gen import run_matrix, replay_generic, diverse_specs, wide_specs, with_args, H

RULE = ('per case: one family of 15 (one-shot, incremental, masked, SIV, ISAP x 3), a fresh key/nonce/AD/message; the '
        'valid ciphertext must decrypt to the plaintext; then every single-bit flip of ciphertext, tag, AD, nonce and '
        'key (messages <= 3 blocks: all bits; longer: all bits of first/last block + one random bit per byte), 16 random '
        'multi-bit changes, every 2-bit flip of the tag, XOR- and ADD-cancelling byte pairs, byte swaps and rotations of the tag, tag-zero/first/last byte, truncation and extension by 1..17 bytes at head and tail, every '
        'clen 0..15, AD truncated/extended -> result must be negative and (one-shot) all mlen plaintext bytes zero in a '
        'buffer pre-filled with 0xA5; distinct = (build, family, ad-class, m-class, exhaustive|sampled)')
ASSUME = ['accepting forgeries that need >= 2 cancelling differences are sampled, not enumerated']


def harnesses():
    return [with_args(H['aead'], 'aead', ['--arg', 'dec'], 600, 2500),
            with_args(H['aead'], 'aead', ['--arg', 'sess'], 6000, 20000)]


def run(ctx):
    # quick: every backend once (diverse_specs) plus the share counts those five leave out on the portable C backends
    specs = wide_specs() if ctx.thorough else diverse_specs() + [(Cfg('c64', (4, 2, 4)), 'rel'), (Cfg('c32', (3, 3, 3)), 'rel')]
    return run_matrix(ctx, harnesses(), specs, RULE, assumptions=ASSUME)


def replay(ctx, rec):
    rc = replay_generic(ctx, rec, H)
    return run(ctx) if rc is None else rc
