"""Generic property runner: N builds x one or more harness programs, sharded."""
import core
from core import Cfg

HOST_BACKENDS = ['asm', 'c64', 'c32', 'dxor', 'generic']
MASKED_BACKENDS = ['asm', 'c64', 'c32']   # dxor/generic reuse one of these word implementations

# harness table shared by several properties
H = {
    'aead': dict(name='aead', sources=['h_aead.c', 'trng_tape.c']),
    'perm': dict(name='perm', sources=['h_perm.c']),
    # same harnesses linked with the library's REAL random source (deterministic getrandom underneath)
    'aead-realtrng': dict(name='aead-realtrng', sources=['h_aead.c', 'getrandom_tape.c']),
    'cpp-realtrng': dict(name='cpp-realtrng', sources=['h_cpp.cpp', 'getrandom_tape.c'], cxx=True),
    'sym': dict(name='sym', sources=['h_sym.c']),
    'wipe': dict(name='wipe', sources=['h_wipe.cpp', 'trng_tape.c'], cxx=True, extra_flags=['-O3']),
    'abi': dict(name='abi', sources=['h_abi.c', 'tramp_x86_64.S', 'trng_tape.c']),
    'mt': dict(name='mt', sources=['h_mt.c', 'devrandom_block.c'], libs=['-lpthread', '-ldl']),   # random device files unopenable: in the dead-source run getrandom() is the whole source
    'ct': dict(name='ct', sources=['h_ct.c'], extra_flags=['-O1']),
    'prng': dict(name='prng', sources=['h_prng.c', 'devrandom_block.c'], libs=['-ldl']),   # the scripted getrandom() is the only system source: the random device files cannot be opened
    'hex': dict(name='hex', sources=['h_hex.cpp'], cxx=True),
    'bytearray': dict(name='bytearray', sources=['h_bytearray.cpp', core.REPO + '/src/cplusplus/ascon-byte-array.cpp', core.REPO + '/src/cplusplus/ascon-aead-cpp.cpp'], cxx=True, extra_flags=['-DASCON_NO_STL']),
    'cpp': dict(name='cpp', sources=['h_cpp.cpp', 'trng_tape.c'], cxx=True),
    'masked': dict(name='masked', sources=['h_masked.c', 'trng_tape.c']),
}


def diverse_specs(flavour='rel'):
    """five builds that cover every backend and every share count 1..4 once"""
    return [(Cfg('asm', (4, 2, 4)), flavour), (Cfg('c64', (3, 3, 3)), flavour), (Cfg('c32', (2, 1, 2)), flavour),
            (Cfg('dxor', (4, 3, 4)), flavour), (Cfg('generic', (4, 4, 4)), flavour)]


def wide_specs(flavour='rel', backends=None):
    """every backend x the nine (key,data) pairs at max=4, plus max=2 and max=3 clamps"""
    out = []
    for be in backends or HOST_BACKENDS:
        for k in (2, 3, 4):
            for d in range(1, k + 1):
                out.append((Cfg(be, (k, d, 4)), flavour))
        out.append((Cfg(be, (4, 2, 3)), flavour))
        out.append((Cfg(be, (4, 4, 2)), flavour))
        out.append((Cfg(be, (3, 3, 3)), flavour))
    return out


def with_args(h, name, args, cases_quick=None, cases_thorough=None):
    d = dict(h)
    d['extra_args'] = list(args)
    d['cases_quick'], d['cases_thorough'] = cases_quick, cases_thorough
    return d



def run_matrix(ctx, harnesses, specs, rule, level='exploration', assumptions=(), timeout=1800, shards=None):
    """harnesses: list of dict(name, sources, cxx=False, cases_quick, cases_thorough, extra_args=(), extra_flags=(), libs=())
       specs: list of (Cfg, flavour)"""
    ctx.rule, ctx.level = rule, level
    ctx.assumptions = list(assumptions)
    builds = ctx.build_many(specs)
    jobs = []
    for b in builds:
        if not b.ok:
            ctx.build_failed(b)
            continue
        for h in harnesses:
            jobs.append((b, h))
    import concurrent.futures as cf
    done = {}

    def comp(job):
        b, h = job
        return ctx.compile_harness(b, h['name'], h['sources'], cxx=h.get('cxx', False),
                                   extra=h.get('extra_flags', ()), libs=h.get('libs', ()))
    # the two shared objects (reference, common) are compiled once per build, serially, before fanning out
    seen = set()
    for b, h in jobs:
        if b.name not in seen:
            seen.add(b.name)
            done[(b.name, h['name'])] = comp((b, h))
    with cf.ThreadPoolExecutor(max_workers=8) as ex:
        rest = [j for j in jobs if (j[0].name, j[1]['name']) not in done]
        for j, r in zip(rest, ex.map(comp, rest)):
            done[(j[0].name, j[1]['name'])] = r
    for b, h in jobs:
        exe, log = done[(b.name, h['name'])]
        if exe is None:
            if h.get('compile_failure_is_violation'):
                ctx.violations.append(core.Violation(ctx.prop, 'harness-compile:%s' % h['name'], {'log': log[-3000:], 'build': b.name}, build=b))
                continue
            raise core.HarnessError('harness %s does not compile on %s:\n%s' % (h['name'], b.name, log[-4000:]))
        cases = h.get('cases_thorough') if ctx.thorough else h.get('cases_quick')
        ctx.run_harness(b, exe, h['name'], cases=cases, extra_args=h.get('extra_args', ()), timeout=timeout,
                        shards=shards or h.get('shards'))
    return ctx.finish()


def replay_generic(ctx, rec, harness_table):
    """re-run one recorded case on the recorded build; exit 1 if the same key shows again"""
    if not rec.get('build') or not rec.get('harness'):
        print('replay: record has no build/harness; re-running the whole check')
        return None
    cfg = Cfg.from_json(rec['build']['cfg'])
    b = ctx.build(cfg, rec['build']['flavour'])
    if not b.ok:
        ctx.build_failed(b)
        return ctx.finish(evaluations=1)
    h = harness_table[rec['harness']]
    exe, log = ctx.compile_harness(b, h['name'], h['sources'], cxx=h.get('cxx', False),
                                   extra=h.get('extra_flags', ()), libs=h.get('libs', ()))
    if exe is None:
        raise core.HarnessError(log[-3000:])
    case = rec.get('case')
    args = list(rec.get('args', {}).get('extra', []))
    ctx.rule = 'replay of one recorded case'
    ctx.run_harness(b, exe, h['name'], cases=rec.get('args', {}).get('cases'), extra_args=args, only=case if case is not None else None,
                    shards=1 if case is not None else None)
    hits = [v for v in ctx.violations if v.prop == rec['property'] and v.key == rec['key']]
    ctx.distinct.update(['replay-a', 'replay-b'])
    rc = ctx.finish(evaluations=max(1, ctx.counters.get('cases', 1)))
    print('replay: key %s %s' % (rec['key'], 'REPRODUCED' if hits else 'not reproduced'))
    return rc
