"""C09: identical results for every build configuration; the acquire/release checker build never aborts."""
import os
import re
import subprocess

import core
from core import Cfg, Violation
from props._gen import H, with_args, HOST_BACKENDS

RULE = ('one fixed deterministic workload (seed, case index -> inputs; TRNG and system entropy replaced by tapes) run through the permutation, '
        'AEAD (encrypt, decrypt + mutations, sessions), hash/XOF/MAC/KDF (one-shot + incremental), C++ class, hex and PRNG harnesses in '
        'transcript mode: every library output of a case is folded into a per-case digest; the per-case digests of every configuration '
        'must be identical (and each harness also compares with the reference model, so "all equal" cannot hide "all wrong"); a '
        'configuration that does not build, crashes or aborts (acquire/release checker) is a violation; the workload objects must '
        'reference every public function (187 T symbols declared in src/ascon/*.h); distinct = (configuration, harness, case)')
ASSUME = ['the AEAD and C++ harnesses are linked with the library\'s real random source here (deterministic getrandom underneath), so the acquire/release pairing of the TRNG is part of what the checker build observes',
          'equality is established on the transcript inputs only', 'harness-internal masked-toolkit and raw-object-byte outputs are configuration dependent by design and are not part of the transcript']

SHARDS = 8


def harnesses(thorough):
    k = 3 if thorough else 1
    return [
        with_args(H['perm'], 'perm', ['--mode', 'transcript'], 300 * k, 300 * k),
        with_args(H['aead-realtrng'], 'aead-realtrng', ['--mode', 'transcript', '--arg', 'enc'], 3000 * k, 3000 * k),
        with_args(H['aead-realtrng'], 'aead-realtrng', ['--mode', 'transcript', '--arg', 'dec'], 45 * k, 45 * k),
        with_args(H['aead-realtrng'], 'aead-realtrng', ['--mode', 'transcript', '--arg', 'sess'], 600 * k, 600 * k),
        with_args(H['sym'], 'sym', ['--mode', 'transcript', '--arg', 'all'], 3000 * k, 3000 * k),
        with_args(H['cpp-realtrng'], 'cpp-realtrng', ['--mode', 'transcript'], 2100 * k, 2100 * k),
        with_args(H['hex'], 'hex', ['--mode', 'transcript'], 300 * k, 300 * k),
        with_args(H['prng'], 'prng', ['--mode', 'transcript'], 150 * k, 150 * k),
    ]


def specs(thorough):
    out = []
    if thorough:
        for be in HOST_BACKENDS:
            for sh in core.ALL_SHARES:
                out.append(Cfg(be, sh))
        for k in (2, 3, 4):
            for d in range(1, k + 1):
                out.append(Cfg('asm', (k, d, 4), checker=True))
        return out
    out = [Cfg(be) for be in HOST_BACKENDS]
    out += [Cfg('c64', (k, d, 4)) for k in (2, 3, 4) for d in range(1, k + 1) if (k, d) != (4, 2)]
    out += [Cfg('asm', (4, 2, 2)), Cfg('asm', (4, 3, 3)), Cfg('c32', (3, 3, 2)), Cfg('c32', (4, 4, 3))]
    out += [Cfg('asm', (4, 2, 4), checker=True), Cfg('asm', (2, 1, 2), checker=True), Cfg('asm', (3, 3, 3), checker=True)]
    return out


def public_function_coverage(ctx, b):
    """undefined ascon* symbols of the harness objects vs the public T symbols of the library"""
    srcs = [('h_perm.c', 0), ('h_aead.c', 0), ('h_sym.c', 0), ('h_masked.c', 0), ('h_prng.c', 0), ('h_cpp.cpp', 1), ('h_hex.cpp', 1), ('h_wipe.cpp', 1)]
    used = set()
    for s, cxx in srcs:
        o = os.path.join(b.dir, 'cov_' + s + '.o')
        p = subprocess.run(['g++' if cxx else 'gcc'] + b.harness_flags(bool(cxx)) + ['-c', os.path.join(core.VERIF, 'h', s), '-o', o],
                           stdout=subprocess.PIPE, stderr=subprocess.STDOUT, text=True)
        if p.returncode:
            raise core.HarnessError('coverage compile of %s failed: %s' % (s, p.stdout[-2000:]))
        out = subprocess.run(['nm', '-u', o], stdout=subprocess.PIPE, text=True).stdout
        used.update(re.findall(r'\b(ascon\w*)$', out, re.M))
    defined = set(re.findall(r' T (ascon\w*)', subprocess.run(['nm', b.lib], stdout=subprocess.PIPE, stderr=subprocess.DEVNULL, text=True).stdout))
    declared = set()
    hdir = os.path.join(core.REPO, 'src', 'ascon')
    for f in os.listdir(hdir):
        if f.endswith('.h'):
            declared.update(re.findall(r'ascon\w*', open(os.path.join(hdir, f)).read()))
    public = defined & declared
    missing = sorted(public - used)
    ctx.extra['public_functions'] = len(public)
    ctx.extra['public_functions_referenced_by_workload'] = len(public & used)
    ctx.extra['public_functions_not_referenced'] = missing
    return missing


def run(ctx):
    ctx.rule, ctx.assumptions = RULE, ASSUME
    cfgs = specs(ctx.thorough)
    builds = ctx.build_many([(c, 'rel') for c in cfgs])
    hs = harnesses(ctx.thorough)
    good = []
    for b in builds:
        if not b.ok:
            ctx.build_failed(b)
        else:
            good.append(b)
    if good:
        missing = public_function_coverage(ctx, good[0])
        if missing:
            ctx.inconclusive.append('workload does not reference public functions: ' + ', '.join(missing))
    import concurrent.futures as cf
    jobs = [(b, h) for b in good for h in hs]
    exes = {}
    seen = set()
    for b, h in jobs:
        if b.name not in seen:   # shared objects once per build
            seen.add(b.name)
            exes[(b.name, h['name'])] = ctx.compile_harness(b, h['name'], h['sources'], cxx=h.get('cxx', False), extra=h.get('extra_flags', ()))
    todo = sorted({(b.name, h['name']) for b, h in jobs} - set(exes))
    bmap = {b.name: b for b in good}
    hmap = {h['name']: h for h in hs}
    with cf.ThreadPoolExecutor(max_workers=8) as ex:
        for k, r in zip(todo, ex.map(lambda k: ctx.compile_harness(bmap[k[0]], hmap[k[1]]['name'], hmap[k[1]]['sources'], cxx=hmap[k[1]].get('cxx', False),
                                                                extra=hmap[k[1]].get('extra_flags', ())), todo)):
            exes[k] = r
    for b, h in jobs:
        exe, log = exes[(b.name, h['name'])]
        if exe is None:
            ctx.violations.append(Violation('C09', 'harness-does-not-compile:%s:%s' % (h['name'], b.cfg.name), {'log': log[-2000:]}, build=b))
            continue
        ctx.run_harness(b, exe, h['name'], cases=h['cases_quick'], extra_args=h['extra_args'], shards=SHARDS, prop='C09', crash_key_cfg=True)
    # compare transcripts: for every (harness, args, case) the digest must be the same in all builds
    by_run = {}
    for (bname, hname, args), cases in ctx.transcripts.items():
        by_run.setdefault((hname, args), {})[bname] = cases
    ncmp = 0
    for (hname, args), per_build in sorted(by_run.items()):
        allcases = sorted(set().union(*[set(c) for c in per_build.values()]))
        what = hname + ':' + ':'.join(a for a in args if not a.startswith('--'))
        for case in allcases:
            vals = {}
            for bname, cases in per_build.items():
                if case in cases:
                    vals.setdefault(cases[case], []).append(bname)
            ncmp += 1
            if len(vals) > 1:
                major = max(vals.values(), key=len)
                for dig, bnames in vals.items():
                    if bnames is major:
                        continue
                    for bn in bnames:
                        key = 'transcript-differs:%s:%s' % (what, bn.split('/')[0])
                        if not any(v.key == key for v in ctx.violations):
                            ctx.violations.append(Violation('C09', key, {'case': case, 'harness': hname, 'args': list(args), 'deviating_build': bn,
                                                                         'agreeing_builds': len(major), 'digest': dig,
                                                                         'majority_digest': [d for d, b2 in vals.items() if b2 is major][0]},
                                                            build=bmap.get(bn), harness=hname, args={'extra': list(args), 'cases': hmap[hname]['cases_quick'], 'case': case}))
    ctx.counters['transcript_cases_compared'] = ncmp
    ctx.counters['configurations'] = len(good)
    for bname in {k[0] for k in ctx.transcripts}:
        ctx.distinct.add('config|' + bname)
    if len(ctx.samples) < 6 and by_run:
        (hname, args), per_build = sorted(by_run.items())[0]
        case = sorted(list(per_build.values())[0])[0]
        ctx.samples.append({'harness': hname, 'args': list(args), 'case': case, 'digest_per_build': {b: c.get(case) for b, c in list(per_build.items())[:4]}})
    return ctx.finish(evaluations=ncmp)


def replay(ctx, rec):
    return run(ctx)
