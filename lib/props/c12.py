"""C12: no out-of-bounds access, undefined behaviour or stray output writes (library part + CLI tools)."""
import core
from core import Cfg
from props._gen import run_matrix, replay_generic, with_args, H

RULE = ('every harness of this framework (permutation/byte ranges, AEAD encrypt + all decrypt mutations + sessions, hash/XOF/MAC/KDF '
        'incl. incremental histories, masked words/states/keys, C++ classes, hex codec, NO_STL byte_array, PRNG + TRNG toolkit) '
        'run in exact-buffer mode: every buffer and state object comes from a guard-page allocator (PROT_NONE pages on both sides, '
        'object flush against either guard, all alignments, canary-filled slack), empty optional inputs passed as NULL half of the '
        'time, outputs pre-filled and checked beyond the documented range; builds: gcc ASan+UBSan (-fno-sanitize-recover; one clang 14 ASan+UBSan build quick, four thorough) over '
        'backends x share triples incl. MAX_SHARES 2 and 3, plus the -O3 release builds so that guard pages cover the assembly; the '
        'command-line tools under ASan on hostile argument vectors / files (see C19 driver); a sanitizer report, guard fault '
        '(crash), changed canary or stray write is a violation; distinct = (build, harness-defined case class)')
ASSUME = ['red-zone tools miss far and intra-object overflows; the guard allocator narrows that for caller objects, not for library stack locals',
          'only arguments inside the documented domain are passed (offset+size <= 40, first_round <= 11, partial sizes 1..7)']


def harnesses(thorough):
    k = 2 if thorough else 1
    return [
        with_args(H['perm'], 'perm', [], 500 * k, 500 * k),
        with_args(H['aead'], 'aead', ['--arg', 'enc'], 4000 * k, 4000 * k),
        with_args(H['aead'], 'aead', ['--arg', 'dec'], 90 * k, 90 * k),
        with_args(H['aead'], 'aead', ['--arg', 'sess'], 1500 * k, 1500 * k),
        with_args(H['sym'], 'sym', ['--arg', 'all'], 4000 * k, 4000 * k),
        with_args(H['masked'], 'masked', [], 3000 * k, 3000 * k),
        with_args(H['cpp'], 'cpp', [], 4000 * k, 4000 * k),
        with_args(H['hex'], 'hex', [], 800 * k, 800 * k),
        with_args(H['bytearray'], 'bytearray', [], 3000 * k, 3000 * k),
        with_args(H['prng'], 'prng', [], 300 * k, 300 * k),
    ]


def specs(thorough):
    if thorough:
        out = []
        for be in ('asm', 'c64', 'c32'):
            for sh in core.ALL_SHARES:
                out.append((Cfg(be, sh), 'asan'))
        for be in ('dxor', 'generic'):
            for sh in ((4, 2, 4), (3, 1, 3), (2, 2, 2)):
                out.append((Cfg(be, sh), 'asan'))
        out += [(Cfg(be), 'rel') for be in ('asm', 'c64', 'c32', 'dxor', 'generic')]
        # a second compiler's sanitizers (clang 14) on one build per backend
        out += [(Cfg('asm', (4, 2, 4)), 'asan', None, 'clang'), (Cfg('c64', (3, 3, 3)), 'asan', None, 'clang'), (Cfg('c32', (2, 1, 2)), 'asan', None, 'clang'),
                (Cfg('generic', (4, 4, 4)), 'asan', None, 'clang')]
        return out
    return [(Cfg('asm', (4, 2, 4)), 'asan'), (Cfg('c64', (4, 3, 3)), 'asan'), (Cfg('c32', (4, 4, 2)), 'asan'),
            (Cfg('generic', (3, 1, 4)), 'asan'), (Cfg('dxor', (2, 2, 4)), 'asan'), (Cfg('asm', (4, 2, 4)), 'rel'), (Cfg('asm', (3, 3, 3)), 'rel'),
            (Cfg('c64', (3, 3, 3)), 'asan', None, 'clang')]      # a second compiler's sanitizers


def run(ctx):
    import props.cli as cli
    ctx.rule, ctx.assumptions = RULE, ASSUME
    cli.run_cli_memory_safety(ctx)
    return run_matrix(ctx, harnesses(ctx.thorough), specs(ctx.thorough), RULE, assumptions=ASSUME)


def replay(ctx, rec):
    rc = replay_generic(ctx, rec, H)
    return run(ctx) if rc is None else rc
