"""C07: incremental APIs invariant under chunking, aliasing, copying and re-init."""
from props._gen import run_matrix, replay_generic, diverse_specs, wide_specs, with_args, H

RULE = ('every incremental interface (hash/hasha update; xof/xofa, prf, kmac/kmaca, kdf/kdfa absorb+squeeze; hmac/hmaca update; hkdf/hkdfa expand; incremental AEAD encrypt/decrypt x3) driven with random compositions of input and output (empty parts, < rate, = rate, > rate, one byte at a time, all at once), in == out for AEAD blocks, a state copy taken at a random step and continued in lock-step, and re-init after an arbitrary prefix history; multi-packet encrypt/decrypt sessions on one state (each packet vs the one-shot call under the nonce the session shows); result must equal the one-shot call (itself tied to the reference); distinct = (build, alg, in-class, out-class, history kind)')
ASSUME = ['one-shot results are tied to the reference by C01..C05 in the same run; a one-shot mismatch is attributed to that property, not C07']


def harnesses():
    return [with_args(H['sym'], 'sym', ['--arg', 'C07'], 40000, 1000000), with_args(H['aead'], 'aead', ['--arg', 'enc:C07'], 20000, 300000), with_args(H['aead'], 'aead', ['--arg', 'dec:C07'], 300, 6000),
            with_args(H['aead'], 'aead', ['--arg', 'sess:C07'], 1200, 40000)]


def run(ctx):
    specs = [s for s in wide_specs() if s[0].shares == (4, 2, 4)] if ctx.thorough else diverse_specs()
    return run_matrix(ctx, harnesses(), specs, RULE, assumptions=ASSUME)


def replay(ctx, rec):
    rc = replay_generic(ctx, rec, H)
    return run(ctx) if rc is None else rc
