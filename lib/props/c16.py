"""C16: the library is re-entrant: concurrent use of distinct objects (and shared const objects) is race-free."""
import glob
import os
import re

import core
from core import Cfg, Violation
from props._gen import H

RULE = ('2..16 threads released by a barrier, each running 40 seeded operations per round (one-shot AEAD, SIV, incremental sessions, ISAP '
        'with a SHARED pre-computed key, masked AEAD encrypt/decrypt with a SHARED masked key, hash, customised XOF, HMAC, KMAC, HKDF, '
        'PBKDF2, PRF/MAC/verify, the global ascon_random() and per-thread PRNG objects, hex) on their own objects and on shared const '
        'inputs (incl. HMAC/HKDF/PBKDF2 keys longer than the 64-byte block), with sched_yield injected between operations; many short rounds.  Oracles: ThreadSanitizer (instrumented C/C++ of '
        'library + harness), helgrind and DRD on the uninstrumented -O3 build (assembly accesses included), and equality of every '
        'per-thread result with the same operation executed sequentially after the threads are joined; cold starts: one fresh process per '
        'operation kind (24) whose 8 threads begin with that kind, so lazily initialised state is first touched concurrently; a run with the '
        'system random source dead (getrandom -> ENOSYS), where the PRNG is deterministic and its output is compared as well.  Detector liveness: a planted '
        'unsynchronised counter must be reported by each detector.  distinct = (build+detector, thread count, round)')
ASSUME = ['schedules are sampled; happens-before detectors report a race even when the bad interleaving did not occur',
          'the CHECK_ACQUIRE_RELEASE debugging build has one documented global flag and is excluded']

RACE = re.compile(r'(Possible data race|Conflicting (?:load|store)|ThreadSanitizer: data race)')
FRAME = re.compile(r'^==\d+==\s+(?:at|by) 0x[0-9A-F]+: (\S+) \(')


def vg_reports(paths):
    out = []
    for p in paths:
        cur = None
        for line in open(p, errors='replace'):
            if RACE.search(line):
                cur = [line.strip(), []]
                out.append(cur)
            elif cur is not None:
                m = FRAME.match(line.rstrip())
                if m:
                    cur[1].append(m.group(1))
                elif line.strip().strip('=0123456789 ') == '' and cur[1]:
                    cur = None
    return out


def run(ctx):
    ctx.rule, ctx.assumptions = RULE, ASSUME
    h = H['mt']
    tsan_cfgs = [Cfg('asm'), Cfg('c32', (3, 3, 3)), Cfg('generic')] + ([Cfg('c64', (2, 1, 2)), Cfg('dxor', (4, 4, 4))] if ctx.thorough else [])
    vg_cfgs = [Cfg('asm')] + ([Cfg('c64', (3, 3, 3))] if ctx.thorough else [])
    builds = ctx.build_many([(c, 'tsan') for c in tsan_cfgs] + [(c, 'rel') for c in vg_cfgs])
    rounds = 400 if ctx.thorough else 60
    for b in builds:
        if not b.ok:
            ctx.build_failed(b)
            continue
        exe, log = ctx.compile_harness(b, h['name'], h['sources'], libs=h['libs'])
        if exe is None:
            raise core.HarnessError('h_mt does not compile: ' + log[-3000:])
        if b.flavour == 'tsan':
            # canary: TSan must report the planted race (exit code 97 via TSAN_OPTIONS)
            n0 = len(ctx.violations)
            ctx.run_harness(b, exe, 'mt-canary', extra_args=['--arg', 'canary'], shards=1, prop='C16')
            fired = [v for v in ctx.violations[n0:] if v.key.startswith('tsan:')]
            del ctx.violations[n0:]
            if not fired:
                ctx.inconclusive.append('ThreadSanitizer did not report the planted race on %s' % b.name)
                continue
            ctx.counters['tsan_canary_detected'] = ctx.counters.get('tsan_canary_detected', 0) + 1
            for T in ((2, 4, 8, 16) if ctx.thorough else (4, 16)):
                ctx.run_harness(b, exe, 'mt', cases=rounds, extra_args=['--arg', str(T)], shards=4, prop='C16', timeout=3000)
            # cold starts: one fresh process per operation kind, 8 threads whose first operations all have that kind and no
            # sequential warm-up before them (lazily initialised tables/caches are first touched concurrently)
            for kind in range(24):
                ctx.run_harness(b, exe, 'mt-cold', cases=2 if not ctx.thorough else 6, extra_args=['--arg', 'cold:%d' % kind], shards=1, prop='C16', timeout=3000)
            # the system random source dead for the whole process: what the library does to cope runs on 8 threads at once
            ctx.run_harness(b, exe, 'mt-nosrc', cases=6 if not ctx.thorough else 40, extra_args=['--arg', 'nosrc'], shards=2, prop='C16', timeout=3000)
            ctx.distinct.add('detector|tsan|' + b.cfg.name)
        else:
            for tool in ('helgrind', 'drd'):
                for f in glob.glob(os.path.join(b.dir, 'vg.*.log')):
                    os.unlink(f)
                wrapper = ['valgrind', '--tool=' + tool, '-q', '--log-file=' + os.path.join(b.dir, 'vg.%s.%%p.log' % tool)]
                ctx.run_harness(b, exe, 'mt-canary-' + tool, extra_args=['--arg', 'canary'], shards=1, wrapper=wrapper, prop='C16', timeout=3000)
                reps = vg_reports(glob.glob(os.path.join(b.dir, 'vg.%s.*.log' % tool)))
                if not any('racer' in fr for _, frames in reps for fr in frames):
                    ctx.inconclusive.append('%s did not report the planted race on %s' % (tool, b.name))
                    continue
                ctx.counters[tool + '_canary_detected'] = ctx.counters.get(tool + '_canary_detected', 0) + 1
                for f in glob.glob(os.path.join(b.dir, 'vg.*.log')):
                    os.unlink(f)
                ctx.run_harness(b, exe, 'mt-' + tool, cases=max(2, rounds // 20), extra_args=['--arg', '8'], shards=4, wrapper=wrapper, prop='C16', timeout=3000)
                reps = vg_reports(glob.glob(os.path.join(b.dir, 'vg.%s.*.log' % tool)))
                ctx.counters[tool + '_reports'] = ctx.counters.get(tool + '_reports', 0) + len(reps)
                for head, frames in reps:
                    lib = [f for f in frames if f not in ('worker', 'do_op', 'main', 'start_thread', 'clone', 'mythread_wrapper', 'vgDrd_thread_wrapper')]
                    k = 'race:%s:%s' % (tool, lib[0] if lib else (frames[0] if frames else 'unknown'))
                    if not any(v.key == k for v in ctx.violations):
                        ctx.violations.append(Violation('C16', k, {'build': b.name, 'tool': tool, 'report': head, 'stack': frames[:10]}, build=b, harness='mt'))
                ctx.distinct.add('detector|%s|%s' % (tool, b.cfg.name))
    return ctx.finish()


def replay(ctx, rec):
    return run(ctx)
