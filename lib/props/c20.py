"""C20: hex codec round-trips and rejects bad input; the ASCON_NO_STL byte_array is a vector."""
from props._gen import run_matrix, replay_generic, with_args, H
from core import Cfg

RULE = ('hex: encode->decode identity for every length 0..300 and random lengths to 2000, upper/lower case; decoder vs a 15-line '
        'model on strings from the grammar (hex digits + the six C white-space characters anywhere incl. between nibbles), every '
        'byte value 0..255 inserted at and substituted into every position of short strings, odd digit counts, outlen one too '
        'small, larger buffers; output flush against a guard page; encoder with outlen < 2n+1 -> -1 and at most out[0] written; '
        'C++ bytes_from_hex x3 must return exactly the decoded bytes and an empty array for invalid input, bytes_to_hex x2, '
        'bytes_from_data.  byte_array (ASCON_NO_STL): 4 objects shadowed by std::vector, random sequences of <= 60 operations '
        '(construct x3, copy, assign incl. self, index read/write, data() write, resize grow/shrink/same, reserve, push/pop, '
        'clear, iterate incl. write through begin(), all six comparisons between any two objects) with all four objects '
        'compared with their shadows after every operation; the C++ AEAD byte_array overloads in that configuration; release and '
        'ASan+UBSan builds; distinct = (build, length class / case, operation kind)')
ASSUME = ['pop_back on an empty array and index >= size are undefined for std::vector and are not called']


def run(ctx):
    hs = [with_args(H['hex'], 'hex', [], 6000, 120000), with_args(H['bytearray'], 'bytearray', [], 20000, 2000000)]
    specs = [(Cfg('asm'), 'rel'), (Cfg('asm'), 'asan')]
    return run_matrix(ctx, hs, specs, RULE, assumptions=ASSUME)


def replay(ctx, rec):
    rc = replay_generic(ctx, rec, H)
    return run(ctx) if rc is None else rc
