"""C11: control flow and memory addresses never depend on secret data (memcheck taint tracking on the shipped -O3 objects)."""
import glob
import os
import re

import core
from core import Cfg, Violation
from props._gen import H, with_args, HOST_BACKENDS

RULE = ('the -O3 release library (assembly included) is run under valgrind memcheck by a harness that marks as UNDEFINED every key, '
        'plaintext, password, fed entropy buffer and every byte returned by getrandom (masking randomness, PRNG seeds); public values '
        '(lengths, nonce, AD, the tag given to a verifier) stay defined; accept/reject results are declassified by the harness before '
        'use.  Any "conditional jump depends on uninitialised value" or "use of uninitialised value" (address computation) report is a '
        'violation (witness = the valgrind stack), with one exception that the property itself makes: a report inside a decrypt / verify '
        'operation (the harness announces every operation in the valgrind log) may be the branch on the public accept/reject outcome.  Such '
        'a report goes to the OUTCOME ARBITER: for sampled public shapes of every family where it occurs, one valgrind-lackey process '
        'runs the operation 57 times (3 secret sets x {genuine, one tag bit wrong in byte 0..15, all bytes wrong, first+last wrong}); '
        'the instruction + data address traces of all executions with the same outcome must be identical, otherwise the report is a '
        'violation (witness = two executions with different traces); if identical it is recorded as declassified.  Workload: 15 AEAD families (one-shot, incremental, masked with key masking and '
        'randomize, SIV, ISAP incl. key set-up and save/load) x (adlen, mlen) in a 10x10 boundary grid x {encrypt, decrypt genuine, '
        'decrypt with the tag wrong in byte 0 / 7 / 15, wrong ciphertext}; Prf, Prf-fixed, PrfShort, Mac, Mac-verify (tag wrong at 4 '
        'positions), incremental Prf; HMAC(A), KMAC(A), KDF(A), HKDF(A) one-shot + incremental, both PBKDF2s over key/input/output '
        'length grids; ascon_random, PRNG init/fetch/feed/reseed.  Thorough tier, second oracle: valgrind lackey instruction+data '
        'address traces of two runs that differ only in the secret bytes (read from a file) must be identical.  Liveness: a planted branch on a secret byte must be reported; '
        'distinct = (build, family, public shape)')
ASSUME = ['only executed paths are judged; micro-architectural leakage is out of reach',
          'the C++ wrappers branch on the public accept/reject result and are not part of this check',
          'memcheck tracks definedness bit-precisely; a report is attributed by its first non-harness stack frame']

ERR = re.compile(r'^==\d+== (Conditional jump or move depends on uninitialised value\(s\)|Use of uninitialised value of size \d+|Syscall param .* uninitialised.*)$')
FRAME = re.compile(r'^==\d+==\s+(?:at|by) 0x[0-9A-F]+: (\S+) \((?:in )?([^)]*)\)')


OPMARK = re.compile(r'^\*\*\d+\*\* VFOP (\d+) (\S+) (\S+)')


def parse_logs(paths):
    """-> list of [kind, [frames], (case, family, opclass) or None]; the harness announces every operation with a VFOP line"""
    out = []
    for p in paths:
        cur = None
        op = None
        with open(p, errors='replace') as f:
            for line in f:
                m = OPMARK.match(line)
                if m:
                    op = (int(m.group(1)), m.group(2), m.group(3))
                    continue
                m = ERR.match(line.rstrip())
                if m:
                    cur = [m.group(1), [], op]
                    out.append(cur)
                    continue
                if cur is not None:
                    m = FRAME.match(line.rstrip())
                    if m:
                        cur[1].append((m.group(1), m.group(2)))
                    elif not line.strip().strip('=0123456789 '):
                        cur = None
    return out


def run_under_memcheck(ctx, b, exe, name, extra_args, cases, shards):
    for f in glob.glob(os.path.join(b.dir, 'vg.%s.*.log' % name)):
        os.unlink(f)
    wrapper = ['valgrind', '-q', '--error-limit=no', '--num-callers=14', '--undef-value-errors=yes', '--leak-check=no',
               '--log-file=' + os.path.join(b.dir, 'vg.%s.%%p.log' % name)]
    ctx.run_harness(b, exe, name, cases=cases, extra_args=extra_args, shards=shards, wrapper=wrapper, timeout=3000)
    return parse_logs(glob.glob(os.path.join(b.dir, 'vg.%s.*.log' % name)))


# pass through only the part of a lackey trace after the harness's marker (>= 10 consecutive " S <same address>,8" records,
# instruction records in between ignored); valgrind's own "==pid==" lines are dropped
AWK_AFTER_MARKER = ('/^==/ {next} /^\\*\\*/ {next} started {print; next} /^ S / { if ($2 == prev) cnt++; else { cnt = 1; prev = $2 } if (cnt >= 10) started = 1; next } '
                    '/^I/ {next} { cnt = 0; prev = "" }')


def arbiter_run(scratch, seed, bname, exe, idx, secfile):
    """One lackey process for one public shape (see h_ct.c, arb mode) -> dict(status, ...).
    status: 'same' (all segments with the same outcome have identical instruction+data traces), 'differs', 'inconclusive'."""
    import hashlib
    import subprocess
    outf = os.path.join(scratch, 'arb.%s.%d.out' % (bname.replace('/', '_'), idx))
    cmd = ['valgrind', '--tool=lackey', '--trace-mem=yes', '--log-fd=3', exe, '--seed', str(seed), '--only', str(idx), '--build', bname, '--arg', 'arb=' + secfile]
    # the trace (fd 3) is streamed through a pipe; the harness's own stdout goes to a small file.  The harness prints the
    # marker addresses before the first segment, but we only learn them afterwards - so segments are cut on the two most
    # frequent 8-byte store targets that are exactly 8 bytes apart... simpler: the harness is run once more without valgrind
    # tracing? no: the addresses are stable under valgrind (no ASLR for the client), so a cheap first run gets them.
    env = dict(os.environ, LD_BIND_NOW='1')
    try:
        p0 = subprocess.run(['valgrind', '--tool=none', '-q'] + cmd[4:], stdout=subprocess.PIPE, stderr=subprocess.DEVNULL, text=True, timeout=600, env=env)
    except subprocess.TimeoutExpired:
        return {'status': 'inconclusive', 'why': 'arbiter address run timed out', 'case': idx}
    beg = end = fam = None
    for line in p0.stdout.splitlines():
        f = line.split('\t')
        if f[0] == 'A' and len(f) >= 4:
            beg, end, fam = int(f[1], 16), int(f[2], 16), f[3]
    if beg is None:
        return {'status': 'inconclusive', 'why': 'arbiter printed no marker addresses (exit %s)' % p0.returncode, 'case': idx}
    begs, ends = ' S %08x,8' % beg, ' S %08x,8' % end
    sh = ' '.join("'%s'" % c for c in cmd) + " 3>&1 1>'%s' 2>/dev/null" % outf
    segs = []
    cur = None
    n_rec = 0
    pr = subprocess.Popen(['bash', '-c', sh], stdout=subprocess.PIPE, text=True, errors='replace', env=env)
    try:
        for line in pr.stdout:
            line = line.rstrip('\n')
            if line.startswith('==') or line.startswith('**'):
                continue
            if line == begs:
                cur = [hashlib.sha256(), 0]       # (re)start after every begin-marker store: the segment starts after the last one
                continue
            if cur is None:
                continue
            if line == ends:
                if cur[1]:
                    segs.append((cur[0].hexdigest(), cur[1]))
                cur = None
                continue
            cur[0].update(line.encode() + b'\n')
            cur[1] += 1
            n_rec += 1
        pr.wait(timeout=60)
    except Exception as e:
        pr.kill()
        return {'status': 'inconclusive', 'why': 'arbiter trace run failed: %r' % e, 'case': idx}
    outcomes = {}
    a2 = None
    try:
        for line in open(outf):
            f = line.rstrip('\n').split('\t')
            if f[0] == 'O' and len(f) >= 5:
                outcomes[int(f[1])] = (int(f[2]), int(f[3]), int(f[4]))
            elif f[0] == 'A' and len(f) >= 4:
                a2 = (int(f[1], 16), int(f[2], 16))
        os.unlink(outf)
    except OSError:
        pass
    if a2 != (beg, end):
        return {'status': 'inconclusive', 'why': 'marker addresses changed between the two arbiter runs', 'case': idx}
    if not outcomes:
        return {'status': 'inconclusive', 'why': 'arbiter produced no operations (exit %s)' % pr.returncode, 'case': idx}
    if len(segs) != len(outcomes):
        return {'status': 'inconclusive', 'why': 'found %d trace segments for %d operations' % (len(segs), len(outcomes)), 'case': idx}
    groups = {}
    for i, (dig, cnt) in enumerate(segs):
        groups.setdefault(outcomes[i][0], {}).setdefault(dig, []).append(i)
    if set(groups) != {0, 1}:
        return {'status': 'inconclusive', 'why': 'arbiter did not see both outcomes', 'case': idx}
    res = {'case': idx, 'family': fam, 'segments': len(segs), 'trace_records': n_rec}
    for oc, dd in groups.items():
        if len(dd) > 1:
            # witness: one segment of the majority trace and one that differs, with what distinguishes them
            alld = sorted(dd.items(), key=lambda kv: -len(kv[1]))
            a, bb = alld[0][1][0], alld[1][1][0]
            res.update(status='differs', outcome='accept' if oc else 'reject',
                       witness={'segment_a': dict(zip(('secret_set', 'tag_variant'), outcomes[a][1:])), 'segment_b': dict(zip(('secret_set', 'tag_variant'), outcomes[bb][1:])),
                                'distinct_traces_in_outcome_class': len(dd), 'records_a': segs[a][1], 'records_b': segs[bb][1]})
            return res
    res['status'] = 'same'
    return res


def arbitrate(ctx, b, exe, pending):
    """pending: {site: {family: set(cases)}} - tainted branches/addresses reported inside outcome operations.
    -> (declassified {site: info}, confirmed {site: info}, inconclusive [why])"""
    import concurrent.futures as cf
    import random
    rnd = random.Random(ctx.seed * 7 + 1)
    secfile = os.path.join(ctx.scratch, 'secrets.arb')
    if not os.path.exists(secfile):
        with open(secfile, 'wb') as f:
            f.write(bytes(rnd.getrandbits(8) for _ in range(1 << 16)))
    jobs = {}
    for site, fams in pending.items():
        for fam, cases in fams.items():
            cs = sorted(cases)
            pick = sorted(set([cs[0], cs[-1], rnd.choice(cs)]))
            for c in pick:
                jobs.setdefault(c, set()).add(site)
    order = list(jobs)
    with cf.ProcessPoolExecutor(max_workers=core.NCPU) as ex:     # processes: the trace is cut and hashed in Python
        futs = [ex.submit(arbiter_run, ctx.scratch, ctx.seed, b.name, exe, c, secfile) for c in order]
        results = {c: f.result() for c, f in zip(order, futs)}
    decl, conf, inconc = {}, {}, []
    for site in pending:
        rs = [results[c] for c in jobs if site in jobs[c]]
        bad = [r for r in rs if r['status'] == 'differs']
        unk = [r for r in rs if r['status'] == 'inconclusive']
        if bad:
            conf[site] = bad[0]
        elif unk:
            inconc.append('outcome arbiter for %s on %s: %s' % (site, b.name, unk[0]['why']))
        else:
            decl[site] = {'shapes_arbitrated': len(rs), 'segments_compared': sum(r['segments'] for r in rs), 'trace_records': sum(r['trace_records'] for r in rs),
                          'families': sorted(pending[site])}
    return decl, conf, inconc


def lackey_pairs(ctx, builds, exe_of):
    """second, independent oracle (thorough): the complete instruction + data address trace (valgrind lackey) of two runs
    that differ only in the secret bytes must be identical."""
    import concurrent.futures as cf
    import hashlib
    import subprocess
    import random
    rnd = random.Random(ctx.seed)
    files = []
    for tag in 'AB':
        p = os.path.join(ctx.scratch, 'secrets.' + tag)
        with open(p, 'wb') as f:
            f.write(bytes(rnd.getrandbits(8) for _ in range(1 << 16)))
        files.append(p)
    nsh = 16

    def trace_digest(args):
        b, shard, sf = args
        cmd = ['valgrind', '--tool=lackey', '--trace-mem=yes', '--log-fd=3', exe_of[b.name], '--seed', str(ctx.seed), '--shard', '%d/%d' % (shard, nsh),
               '--build', b.name, '--arg', 'secrets=' + sf]
        p = subprocess.Popen(cmd, stdout=subprocess.DEVNULL, stderr=subprocess.DEVNULL, pass_fds=(), close_fds=False,
                             preexec_fn=None) if False else None
        # run through a shell so that fd 3 is a pipe we can stream
        sh = ' '.join("'%s'" % c for c in cmd) + " 3>&1 1>/dev/null 2>/dev/null | awk '%s' | sha256sum; " % AWK_AFTER_MARKER
        out = subprocess.run(['bash', '-c', sh + "true"], stdout=subprocess.PIPE, text=True, timeout=7200).stdout
        # record count comes from a second cheap pass only when digests differ
        return out.split()[0] if out.split() else 'none'

    jobs = [(b, sh, f) for b in builds if b.name in exe_of for sh in range(nsh) for f in files]
    with cf.ThreadPoolExecutor(max_workers=core.NCPU) as ex:
        digs = list(ex.map(trace_digest, jobs))
    res = {}
    for (b, sh, f), d in zip(jobs, digs):
        res.setdefault((b.name, sh), {})[f] = d
    compared = 0
    for (bn, sh), dd in sorted(res.items()):
        vals = list(dd.values())
        if 'none' in vals or hashlib.sha256(b'').hexdigest() in vals:
            ctx.inconclusive.append('lackey produced no trace for %s shard %d' % (bn, sh))
            continue
        compared += 1
        ctx.distinct.add('lackey-trace|%s|shard%d' % (bn, sh))
        if vals[0] != vals[1]:
            ctx.violations.append(Violation('C11', 'ct:address-trace-differs:%s' % bn.split('/')[0], {'build': bn, 'shard': sh, 'digest_a': vals[0], 'digest_b': vals[1]}))
    ctx.counters['lackey_trace_pairs_compared'] = compared


def run(ctx):
    ctx.rule, ctx.assumptions = RULE, ASSUME
    if ctx.thorough:
        cfgs = [Cfg(be, sh) for be in HOST_BACKENDS for sh in ((4, 2, 4), (4, 4, 4), (4, 3, 4), (3, 3, 3), (3, 1, 3), (2, 2, 2), (2, 1, 2))]
    else:
        cfgs = [Cfg('asm', (4, 2, 4)), Cfg('c32', (3, 3, 3)), Cfg('generic', (2, 1, 2)), Cfg('c64', (4, 4, 4))]
    builds = ctx.build_many([(c, 'rel') for c in cfgs])
    h = H['ct']
    total_err = 0
    exe_of = {}
    for b in builds:
        if not b.ok:
            ctx.build_failed(b)
            continue
        exe, log = ctx.compile_harness(b, h['name'], h['sources'], extra=h.get('extra_flags', ()))
        if exe is None:
            raise core.HarnessError('h_ct does not compile: ' + log[-3000:])
        exe_of[b.name] = exe
        # liveness canary
        errs = run_under_memcheck(ctx, b, exe, 'ct-canary', ['--arg', 'canary'], None, 1)
        if not any(any(fr[0] == 'vf_ct_canary' for fr in frames) for kind, frames, _op in errs):
            ctx.inconclusive.append('memcheck did not report the planted secret-dependent branch on %s' % b.name)
            continue
        ctx.counters['canary_detected'] = ctx.counters.get('canary_detected', 0) + 1
        errs = run_under_memcheck(ctx, b, exe, 'ct', [], 3 if ctx.thorough else 1, core.NCPU)
        pending, pend_detail = {}, {}
        for kind, frames, op in errs:
            total_err += 1
            lib = [fr for fr in frames if not fr[1].startswith('h_ct.c') and not fr[1].startswith('common.c') and fr[0] not in ('main',)]
            fn = lib[0][0] if lib else (frames[0][0] if frames else 'unknown')
            k = 'ct:%s:%s' % ('branch' if kind.startswith('Conditional') else 'address' if kind.startswith('Use') else 'syscall', fn)
            detail = {'build': b.name, 'memcheck': kind, 'stack': ['%s (%s)' % fr for fr in frames[:10]]}
            if op is not None:
                detail['operation'] = {'case': op[0], 'family': op[1], 'class': op[2]}
            if op is not None and op[2] == 'outcome' and not k.startswith('ct:syscall'):
                # inside a decrypt / verify: the property lets control flow depend on the accept/reject outcome.  Not judged
                # here: the outcome arbiter decides whether the traces depend on anything else.
                pending.setdefault(k, {}).setdefault(op[1], set()).add(op[0])
                pend_detail.setdefault(k, detail)
                continue
            if not any(v.key == k and v.build is b for v in ctx.violations):
                ctx.violations.append(Violation('C11', k, detail, build=b, harness='ct'))
        # a site that is also reported in an operation without an outcome is already a violation: nothing to arbitrate
        for k in [k for k in pending if any(v.key == k and v.build is b for v in ctx.violations)]:
            del pending[k]
        if pending:
            decl, conf, inconc = arbitrate(ctx, b, exe, pending)
            ctx.inconclusive.extend(inconc)
            for k, info in conf.items():
                d = dict(pend_detail[k])
                d['outcome_arbiter'] = info
                ctx.violations.append(Violation('C11', k, d, build=b, harness='ct'))
            for k, info in decl.items():
                ctx.counters['reports_declassified_by_outcome_arbiter'] = ctx.counters.get('reports_declassified_by_outcome_arbiter', 0) + 1
                ctx.extra.setdefault('outcome_arbiter_declassified', []).append(dict(info, site=k, build=b.name, memcheck=pend_detail[k]['memcheck'], stack=pend_detail[k]['stack'][:4]))
    if ctx.thorough:
        lackey_pairs(ctx, [b for b in builds if b.ok][:3], exe_of)
    ctx.counters['memcheck_reports'] = total_err
    if len(ctx.samples) < 6:
        ctx.samples.append({'op': 'ascon128_aead_decrypt', 'secret': 'key (16 bytes) + plaintext-derived state', 'public': 'nonce, AD, ciphertext, tag wrong in byte 7', 'shape': 'adlen=9 mlen=17'})
    return ctx.finish()


def replay(ctx, rec):
    return run(ctx)
