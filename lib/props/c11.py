"""C11: control flow and memory addresses never depend on secret data (memcheck taint tracking on the shipped -O3 objects)."""
import glob
import os
import re

import core
from core import Cfg, Violation
from props._gen import H, with_args, HOST_BACKENDS

RULE = ('the -O3 release library (assembly included) is run under valgrind memcheck by a harness that marks as UNDEFINED every key, '
        'plaintext, password, fed entropy buffer and every byte returned by getrandom (masking randomness, PRNG seeds); public values '
        '(lengths, nonce, AD, the tag given to a verifier) stay defined; accept/reject results are declassified by the harness before '
        'use.  Any "conditional jump depends on uninitialised value" or "use of uninitialised value" (address computation) report is a '
        'violation (witness = the valgrind stack).  Workload: 15 AEAD families (one-shot, incremental, masked with key masking and '
        'randomize, SIV, ISAP incl. key set-up and save/load) x (adlen, mlen) in a 10x10 boundary grid x {encrypt, decrypt genuine, '
        'decrypt with the tag wrong in byte 0 / 7 / 15, wrong ciphertext}; Prf, Prf-fixed, PrfShort, Mac, Mac-verify (tag wrong at 4 '
        'positions), incremental Prf; HMAC(A), KMAC(A), KDF(A), HKDF(A) one-shot + incremental, both PBKDF2s over key/input/output '
        'length grids; ascon_random, PRNG init/fetch/feed/reseed.  Thorough tier, second oracle: valgrind lackey instruction+data '
        'address traces of two runs that differ only in the secret bytes (read from a file) must be identical.  Liveness: a planted branch on a secret byte must be reported; '
        'distinct = (build, family, public shape)')
ASSUME = ['only executed paths are judged; micro-architectural leakage is out of reach',
          'the C++ wrappers branch on the public accept/reject result and are not part of this check',
          'memcheck tracks definedness bit-precisely; a report is attributed by its first non-harness stack frame']

ERR = re.compile(r'^==\d+== (Conditional jump or move depends on uninitialised value\(s\)|Use of uninitialised value of size \d+|Syscall param .* uninitialised.*)$')
FRAME = re.compile(r'^==\d+==\s+(?:at|by) 0x[0-9A-F]+: (\S+) \((?:in )?([^)]*)\)')


def parse_logs(paths):
    """-> list of (kind, [frames])"""
    out = []
    for p in paths:
        cur = None
        with open(p, errors='replace') as f:
            for line in f:
                m = ERR.match(line.rstrip())
                if m:
                    cur = [m.group(1), []]
                    out.append(cur)
                    continue
                if cur is not None:
                    m = FRAME.match(line.rstrip())
                    if m:
                        cur[1].append((m.group(1), m.group(2)))
                    elif not line.strip().strip('=0123456789 '):
                        cur = None
    return out


def run_under_memcheck(ctx, b, exe, name, extra_args, cases, shards):
    for f in glob.glob(os.path.join(b.dir, 'vg.%s.*.log' % name)):
        os.unlink(f)
    wrapper = ['valgrind', '-q', '--error-limit=no', '--num-callers=14', '--undef-value-errors=yes', '--leak-check=no',
               '--log-file=' + os.path.join(b.dir, 'vg.%s.%%p.log' % name)]
    ctx.run_harness(b, exe, name, cases=cases, extra_args=extra_args, shards=shards, wrapper=wrapper, timeout=3000)
    return parse_logs(glob.glob(os.path.join(b.dir, 'vg.%s.*.log' % name)))


# pass through only the part of a lackey trace after the harness's marker (>= 10 consecutive " S <same address>,8" records,
# instruction records in between ignored); valgrind's own "==pid==" lines are dropped
AWK_AFTER_MARKER = ('/^==/ {next} started {print; next} /^ S / { if ($2 == prev) cnt++; else { cnt = 1; prev = $2 } if (cnt >= 10) started = 1; next } '
                    '/^I/ {next} { cnt = 0; prev = "" }')


def lackey_pairs(ctx, builds, exe_of):
    """second, independent oracle (thorough): the complete instruction + data address trace (valgrind lackey) of two runs
    that differ only in the secret bytes must be identical."""
    import concurrent.futures as cf
    import hashlib
    import subprocess
    import random
    rnd = random.Random(ctx.seed)
    files = []
    for tag in 'AB':
        p = os.path.join(ctx.scratch, 'secrets.' + tag)
        with open(p, 'wb') as f:
            f.write(bytes(rnd.getrandbits(8) for _ in range(1 << 16)))
        files.append(p)
    nsh = 16

    def trace_digest(args):
        b, shard, sf = args
        cmd = ['valgrind', '--tool=lackey', '--trace-mem=yes', '--log-fd=3', exe_of[b.name], '--seed', str(ctx.seed), '--shard', '%d/%d' % (shard, nsh),
               '--build', b.name, '--arg', 'secrets=' + sf]
        p = subprocess.Popen(cmd, stdout=subprocess.DEVNULL, stderr=subprocess.DEVNULL, pass_fds=(), close_fds=False,
                             preexec_fn=None) if False else None
        # run through a shell so that fd 3 is a pipe we can stream
        sh = ' '.join("'%s'" % c for c in cmd) + " 3>&1 1>/dev/null 2>/dev/null | awk '%s' | sha256sum; " % AWK_AFTER_MARKER
        out = subprocess.run(['bash', '-c', sh + "true"], stdout=subprocess.PIPE, text=True, timeout=7200).stdout
        # record count comes from a second cheap pass only when digests differ
        return out.split()[0] if out.split() else 'none'

    jobs = [(b, sh, f) for b in builds if b.name in exe_of for sh in range(nsh) for f in files]
    with cf.ThreadPoolExecutor(max_workers=core.NCPU) as ex:
        digs = list(ex.map(trace_digest, jobs))
    res = {}
    for (b, sh, f), d in zip(jobs, digs):
        res.setdefault((b.name, sh), {})[f] = d
    compared = 0
    for (bn, sh), dd in sorted(res.items()):
        vals = list(dd.values())
        if 'none' in vals or hashlib.sha256(b'').hexdigest() in vals:
            ctx.inconclusive.append('lackey produced no trace for %s shard %d' % (bn, sh))
            continue
        compared += 1
        ctx.distinct.add('lackey-trace|%s|shard%d' % (bn, sh))
        if vals[0] != vals[1]:
            ctx.violations.append(Violation('C11', 'ct:address-trace-differs:%s' % bn.split('/')[0], {'build': bn, 'shard': sh, 'digest_a': vals[0], 'digest_b': vals[1]}))
    ctx.counters['lackey_trace_pairs_compared'] = compared


def run(ctx):
    ctx.rule, ctx.assumptions = RULE, ASSUME
    if ctx.thorough:
        cfgs = [Cfg(be, sh) for be in HOST_BACKENDS for sh in ((4, 2, 4), (4, 4, 4), (4, 3, 4), (3, 3, 3), (3, 1, 3), (2, 2, 2), (2, 1, 2))]
    else:
        cfgs = [Cfg('asm', (4, 2, 4)), Cfg('c32', (3, 3, 3)), Cfg('generic', (2, 1, 2)), Cfg('c64', (4, 4, 4))]
    builds = ctx.build_many([(c, 'rel') for c in cfgs])
    h = H['ct']
    total_err = 0
    exe_of = {}
    for b in builds:
        if not b.ok:
            ctx.build_failed(b)
            continue
        exe, log = ctx.compile_harness(b, h['name'], h['sources'], extra=h.get('extra_flags', ()))
        if exe is None:
            raise core.HarnessError('h_ct does not compile: ' + log[-3000:])
        exe_of[b.name] = exe
        # liveness canary
        errs = run_under_memcheck(ctx, b, exe, 'ct-canary', ['--arg', 'canary'], None, 1)
        if not any(any(fr[0] == 'vf_ct_canary' for fr in frames) for kind, frames in errs):
            ctx.inconclusive.append('memcheck did not report the planted secret-dependent branch on %s' % b.name)
            continue
        ctx.counters['canary_detected'] = ctx.counters.get('canary_detected', 0) + 1
        errs = run_under_memcheck(ctx, b, exe, 'ct', [], 3 if ctx.thorough else 1, core.NCPU)
        for kind, frames in errs:
            total_err += 1
            lib = [fr for fr in frames if not fr[1].startswith('h_ct.c') and not fr[1].startswith('common.c') and fr[0] not in ('main',)]
            fn = lib[0][0] if lib else (frames[0][0] if frames else 'unknown')
            k = 'ct:%s:%s' % ('branch' if kind.startswith('Conditional') else 'address' if kind.startswith('Use') else 'syscall', fn)
            if not any(v.key == k and v.build is b for v in ctx.violations):
                ctx.violations.append(Violation('C11', k, {'build': b.name, 'memcheck': kind, 'stack': ['%s (%s)' % fr for fr in frames[:10]]}, build=b, harness='ct'))
    if ctx.thorough:
        lackey_pairs(ctx, [b for b in builds if b.ok][:3], exe_of)
    ctx.counters['memcheck_reports'] = total_err
    if len(ctx.samples) < 6:
        ctx.samples.append({'op': 'ascon128_aead_decrypt', 'secret': 'key (16 bytes) + plaintext-derived state', 'public': 'nonce, AD, ciphertext, tag wrong in byte 7', 'shape': 'adlen=9 mlen=17'})
    return ctx.finish()


def replay(ctx, rec):
    return run(ctx)
