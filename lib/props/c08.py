"""C08: permutation and byte-range primitives on every host backend."""
from props._gen import run_matrix, replay_generic, HOST_BACKENDS
from core import Cfg

H = {'perm': dict(name='perm', sources=['h_perm.c'], cases_quick=2000, cases_thorough=200000)}
RULE = ('all 861 (offset,size) pairs x 7 byte-range operations (incl. in-place extract-and-overwrite) x 8 state '
        'patterns; 12 first rounds x 362 structured states (zero, ones, each single bit, each single byte) + random '
        'states; every output compared with the reference model; distinct = distinct (backend, offset, size) and '
        '(backend, first round, state class)')


def run(ctx):
    specs = [(Cfg(b), 'rel') for b in HOST_BACKENDS] + [(Cfg(b), 'asan') for b in HOST_BACKENDS]
    return run_matrix(ctx, list(H.values()), specs, RULE,
                      assumptions=['reference permutation validated on pinned vectors (table S-box == bit-sliced S-box)',
                                   'offset+size <= 40 and first_round <= 11 only (documented domain)'],
                      shards=8)


def replay(ctx, rec):
    rc = replay_generic(ctx, rec, H)
    return run(ctx) if rc is None else rc
