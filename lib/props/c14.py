"""C14: session nonces advance by exactly one per packet, big-endian, with full carry."""
from props._gen import run_matrix, replay_generic, diverse_specs, with_args, H

RULE = ('C sessions (3 incremental types): starting nonces with every carry-chain length 0..16 (..00 FF^k), also a few steps before the '
        'wrap at 2^128, 1..6 packets mixing encrypt / good decrypt / bad decrypt; packet i must equal the one-shot result under '
        'N+i (128-bit big-endian counter kept by the harness) and the public nonce field must equal N+i+1 after *_aead_start; '
        'ascon_aead_increment_nonce / set_counter directly.  C++ (12 cipher classes): set_nonce(len 0..40) = left-zero-padded / '
        'first 16 bytes, set_counter = 8 zero bytes || BE64, every encryption and successful decryption advances by one, a failed '
        'decryption leaves the nonce unchanged (next operation compared with the C function under the unchanged nonce); distinct '
        '= (build, session type, carry-chain length, packets) and (build, class, nonce-setting path, op kind)')
ASSUME = ['a C++ mismatch is attributed to C14 only when an earlier operation of the same object matched (key path known good) or when '
          'the output equals the C result under a neighbouring nonce; otherwise it is a C17 observation']


def harnesses():
    return [with_args(H['aead'], 'aead', ['--arg', 'sess'], 12000, 300000),
            with_args(H['cpp'], 'cpp', ['--arg', 'ciphers'], 12000, 200000)]


def run(ctx):
    return run_matrix(ctx, harnesses(), diverse_specs(), RULE, assumptions=ASSUME)


def replay(ctx, rec):
    rc = replay_generic(ctx, rec, H)
    return run(ctx) if rc is None else rc
