"""C04: PRF, PrfShort, MAC (+verify), HMAC(A), KMAC(A) vs the reference model."""
from props._gen import run_matrix, replay_generic, diverse_specs, wide_specs, with_args, H

RULE = ('prf / prf_fixed (also declared != produced length through the incremental init), PrfShort over the full (inlen, outlen) grid 0..18 x 0..18 incl. the error returns and untouched output, MAC with verify on the correct tag, all 128 single-bit flips, random tags, tags equal in 15 bytes and a wrong message; HMAC/HMACA with every key length 0..130 and 1 KiB; KMAC/KMACA with output 32 (precomputed state) and 0..70/1000, customisation 0..40/1 KiB; distinct = (build, alg, key-class, in-class, custom-class, out-class, history)')
ASSUME = ['reference PRF/MAC/PrfShort validated on pinned official vectors; HMAC is generic RFC 2104 over the reference hash', 'PrfShort with outlen < 16 = the 16-byte value truncated (t=128 in the IV)']


def harnesses():
    return [with_args(H['sym'], 'sym', ['--arg', 'C04'], 30000, 600000)]


def run(ctx):
    specs = [s for s in wide_specs() if s[0].shares == (4, 2, 4)] if ctx.thorough else diverse_specs()
    return run_matrix(ctx, harnesses(), specs, RULE, assumptions=ASSUME)


def replay(ctx, rec):
    rc = replay_generic(ctx, rec, H)
    return run(ctx) if rc is None else rc
