"""C01: AEAD encryption == ASCON v1.2 for one-shot, incremental and masked C entry points
and the C++ cipher classes (h_cpp sessions)."""
from core import Cfg
from props._gen import run_matrix, replay_generic, diverse_specs, wide_specs, with_args, H

RULE = ('per family (3 one-shot, 3 incremental with random chunking/in-place, 3 masked with a random TRNG tape): the '
        'full (adlen, mlen) grid 0..34 (quick) / 0..4r+2 (thorough), then boundary-biased random lengths up to 4 KiB '
        '(quick) / 64 KiB (thorough); keys/nonces from 6 pattern classes; ciphertext||tag and *clen compared with the '
        'reference model; non-trivial = AD or plaintext non-empty; distinct = (build, family, ad-class, m-class, '
        'key-pattern, nonce-pattern) and (build, masked family, tape class)')
ASSUME = ['reference AEAD validated on pinned official vectors', 'keys and nonces are sampled']


def harnesses():
    return [with_args(H['aead'], 'aead', ['--arg', 'enc:C01'], 20000, 100000),
            with_args(H['aead'], 'aead', ['--arg', 'sess'], 6000, 30000),
            with_args(H['cpp'], 'cpp', ['--arg', 'ciphers'], 12000, 60000)]


def run(ctx):
    # quick: every backend once (diverse_specs) plus the share counts those five leave out on the portable C backends
    specs = wide_specs() if ctx.thorough else diverse_specs() + [(Cfg('c64', (4, 2, 4)), 'rel'), (Cfg('c32', (3, 3, 3)), 'rel')]
    return run_matrix(ctx, harnesses(), specs, RULE, assumptions=ASSUME)


def replay(ctx, rec):
    rc = replay_generic(ctx, rec, H)
    return run(ctx) if rc is None else rc
