"""C13: freed, cleared and destroyed objects retain nothing derived from secrets."""
from props._gen import run_matrix, replay_generic, with_args, H, HOST_BACKENDS
from core import Cfg

RULE = ('42 object types (24 C state types incl. permutation state, incremental AEAD x3, hash/hasha, xof/xofa, prf, hmac(a), kmac(a), '
        'kdf(a), hkdf(a), PRNG, ISAP keys x3, masked keys 128/160, masked state; 18 C++ classes: 12 cipher classes, hash, hasha, '
        'xof, xof<32>, xofa, xofa<64>) driven through a random public operation history in guard-page storage pre-filled with '
        '0xA5, twice: secret set A and secret set B (every secret byte differs; same lengths, public inputs and TRNG tape); '
        'raw bytes of the storage after free / destructor / clear() (and clear()+destructor) / reinit+free must be identical; '
        'liveness: the bytes before the release differ between A and B (vacuous cases are counted, not counted as distinct); '
        'release -O3 library, harness compiled at -O3 without sanitizers; distinct = (build, object type, release path)')
ASSUME = ['says nothing about copies left in dead stack frames or registers', 'the all-zero criterion is not imposed, only independence from the secrets']


def run(ctx):
    hs = [with_args(H['wipe'], 'wipe', [], 8000, 200000)]
    if ctx.thorough:
        specs = [(Cfg(b), 'rel') for b in HOST_BACKENDS] + [(Cfg('asm', (2, 1, 2)), 'rel'), (Cfg('c64', (3, 3, 3)), 'rel'), (Cfg('c32', (4, 4, 4)), 'rel')]
    else:
        specs = [(Cfg(b), 'rel') for b in HOST_BACKENDS]
    return run_matrix(ctx, hs, specs, RULE, assumptions=ASSUME)


def replay(ctx, rec):
    rc = replay_generic(ctx, rec, H)
    return run(ctx) if rc is None else rc
