"""C18 monitor 3: the i386 assembly backend built 32-bit freestanding static and run natively."""
import os
import subprocess
import sys

import core
from core import Violation

sys.path.insert(0, os.path.join(core.VERIF, 'emu'))


def run(ctx):
    import ascon_py
    d = os.path.join(ctx.scratch, 'm32')
    os.makedirs(d, exist_ok=True)
    exe = os.path.join(d, 'h_i386')
    src = os.path.join(core.REPO, 'src')
    cmd = ['gcc', '-m32', '-O2', '-ffreestanding', '-nostdlib', '-static', '-fno-stack-protector', '-fno-pie', '-no-pie',
           '-I' + os.path.join(core.VERIF, 'h', 'm32'), '-isystem', '/usr/include/x86_64-linux-gnu', '-I' + src, '-I' + os.path.join(src, 'core'),
           '-D' + core.GUARD, '-DSEED=%d' % ctx.seed, '-DNRANDOM=%d' % (5000 if ctx.thorough else 300),
           os.path.join(core.VERIF, 'h', 'm32', 'h_i386.c'), os.path.join(core.VERIF, 'h', 'm32', 'tramp_i386.S'), os.path.join(src, 'core', 'ascon-asm-i386.S'), os.path.join(src, 'core', 'ascon-sliced32.c'),
           os.path.join(src, 'core', 'ascon-clean.c'), '-o', exe]
    p = subprocess.run(cmd, stdout=subprocess.PIPE, stderr=subprocess.STDOUT, text=True)
    if p.returncode:
        # a compile error located in the repository's files means the i386 backend does not build: that is a violation;
        # anything else (missing 32-bit support on the host) is a harness problem
        if '/repo/' in p.stdout and 'error:' in p.stdout:
            ctx.violations.append(Violation('C18', 'i386:does-not-build', {'log': p.stdout[-2000:]}))
        else:
            ctx.inconclusive.append('i386 monitor: cannot build a 32-bit static binary here: ' + p.stdout[-400:])
        return
    try:
        p = subprocess.run([exe], stdout=subprocess.PIPE, stderr=subprocess.PIPE, timeout=600)
    except subprocess.TimeoutExpired:
        ctx.violations.append(Violation('C18', 'i386:hang', {}))
        return
    if p.returncode != 0:
        ctx.violations.append(Violation('C18', 'i386:crash', {'exit': p.returncode, 'stdout_tail': p.stdout[-300:].decode('utf8', 'replace')}))
        return
    n = 0
    names = ['ebx', 'esi', 'edi', 'ebp', 'stack-pointer', 'direction-flag', 'caller-frame-written', 'state-guard-bytes']
    for line in p.stdout.decode().splitlines():
        f = line.split()
        if len(f) != 5 or f[0] != 'R':
            continue
        fr, sin, sout, flags = int(f[1]), bytes.fromhex(f[2]), bytes.fromhex(f[3]), int(f[4])
        n += 1
        ctx.distinct.add('i386|round%d|%s' % (fr, 'zero' if not any(sin) else 'ones' if all(b == 255 for b in sin) else 'onebit' if sum(bin(b).count('1') for b in sin) == 1 else 'other'))
        exp = ascon_py.permute_bytes(sin, fr)
        if exp != sout and not any(v.key == 'i386:ascon_permute:round%d' % fr for v in ctx.violations):
            ctx.violations.append(Violation('C18', 'i386:ascon_permute:round%d' % fr, {'first_round': fr, 'state': sin.hex(), 'got': sout.hex(), 'expected': exp.hex()}))
        for bit, nm in enumerate(names):
            if flags >> bit & 1 and not any(v.key == 'abi:i386:ascon_permute:' + nm for v in ctx.violations):
                ctx.violations.append(Violation('C18', 'abi:i386:ascon_permute:' + nm, {'first_round': fr, 'flags': flags}))
    ctx.counters['i386_native_calls'] = n
    ctx.counters['cases'] = ctx.counters.get('cases', 0) + n
    if n < 12 * 40:
        ctx.inconclusive.append('i386 monitor produced only %d results' % n)
    if len(ctx.samples) < 6:
        ctx.samples.append({'monitor': 'native i386', 'calls': n, 'registers_checked': names[:4] + ['esp', 'DF']})
