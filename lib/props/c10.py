"""C10: masked code == unmasked code for every randomness and share count."""
from props._gen import run_matrix, replay_generic, with_args, H, MASKED_BACKENDS
from core import Cfg, ALL_SHARES

RULE = ('TRNG replaced at link time by a tape (zero, ones, one repeated value, counter, alternating, pairwise-distinct, random): '
        '(a) masked AEAD x3 encrypt/decrypt (incl. all single-bit forgeries) vs the reference; (b) ascon_x2/x3/x4_permute for '
        'every first round + chained call with carried preserve words vs the reference permutation; share-count conversions; '
        '(c) every masked-word operation x2/x3/x4 (load, load_partial 1..7, load_32, zero, store, store_partial 1..7, xor, '
        'replace 1..7, pad 0..7, separator, from_xN separate and in place, randomize) vs a model on the unmasked value; '
        '(d) masked key 128/160 init -> extract; (e) randomize of words, states and keys keeps the value and, under the '
        'pairwise-distinct non-zero tape, changes every share word of the configured share count; distinct = (build, '
        'share count, tape class, round / op class)')
ASSUME = ['functional correctness of masking only, not its side-channel order',
          'partial-size operations are called with the documented sizes 1..7 only']


def harnesses():
    return [with_args(H['masked'], 'masked', [], 12000, 60000),
            with_args(H['aead'], 'aead', ['--arg', 'enc:C10'], 8000, 30000),
            with_args(H['aead'], 'aead', ['--arg', 'dec:C10'], 120, 600)]


def run(ctx):
    if ctx.thorough:
        shares = ALL_SHARES
    else:
        shares = [(4, 2, 4), (3, 3, 3), (2, 1, 2), (4, 4, 3)]
    specs = [(Cfg(be, sh), 'rel') for be in MASKED_BACKENDS for sh in shares]
    return run_matrix(ctx, harnesses(), specs, RULE, assumptions=ASSUME, shards=8)


def replay(ctx, rec):
    rc = replay_generic(ctx, rec, H)
    return run(ctx) if rc is None else rc
