"""C06: SIV and ISAP constructions; ISAP pre-computed key persistence."""
from props._gen import run_matrix, replay_generic, diverse_specs, wide_specs, with_args, H

RULE = ('SIV x3 and ISAP x3 one-shot encryption vs the reference model over the (adlen, mlen) grid and boundary-biased '
        'random lengths; SIV determinism; ISAP histories of 1..20 packets per pre-computed key with save/load at a random '
        'point: saved 80 bytes == reference K_E||K_A, re-saved == saved, loaded key gives identical ciphertexts, raw bytes '
        'of the key object identical before/after every encrypt/decrypt/save; distinct = (build, family, ad-class, '
        'm-class, key/nonce pattern) and (build, variant, packets, save point)')
ASSUME = ['reference SIV/ISAP validated on pinned vectors (ISAP: official submission vectors)']


def harnesses():
    return [with_args(H['aead'], 'aead', ['--arg', 'enc:C06'], 20000, 400000),
            with_args(H['cpp'], 'cpp', ['--arg', 'ciphers'], 12000, 200000)]


def run(ctx):
    specs = [s for s in wide_specs() if s[0].shares == (4, 2, 4)] if ctx.thorough else diverse_specs()
    return run_matrix(ctx, harnesses(), specs, RULE, assumptions=ASSUME)


def replay(ctx, rec):
    rc = replay_generic(ctx, rec, H)
    return run(ctx) if rc is None else rc
