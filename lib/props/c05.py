"""C05: HKDF(A), PBKDF2 (cXOF PRF and HMAC flavour), KDF(A) vs generic RFC 5869 / RFC 8018 over the reference."""
from props._gen import run_matrix, replay_generic, diverse_specs, wide_specs, with_args, H

RULE = ('hkdf/hkdfa one-shot with outlen around 8128..8192 (return value -1 exactly above 8160) and incremental expand in random pieces across the 255-block limit (return value, servable prefix, zero fill of the rest in a 0xA5 pre-filled buffer, zero-length requests); pbkdf2 and pbkdf2_hmac with counts {0,1,2,3,4,7,100} (8192 thorough), 0..5 blocks + partial; kdf/kdfa one-shot and incremental squeeze; key/salt/info/password lengths 0..130 and 1 KiB, NULL when empty; distinct = (build, alg, count, blocks, length classes)')
ASSUME = ['RFC 5869 / RFC 8018 implemented generically over the validated reference HMAC / cXOF']


def harnesses():
    return [with_args(H['sym'], 'sym', ['--arg', 'C05'], 12000, 200000)]


def run(ctx):
    specs = [s for s in wide_specs() if s[0].shares == (4, 2, 4)] if ctx.thorough else diverse_specs()
    return run_matrix(ctx, harnesses(), specs, RULE, assumptions=ASSUME)


def replay(ctx, rec):
    rc = replay_generic(ctx, rec, H)
    return run(ctx) if rc is None else rc
