"""C15: PRNG determinism, influence, forward security, reseed and status reporting."""
from props._gen import run_matrix, replay_generic, with_args, H
from core import Cfg

RULE = ('getrandom() replaced at link time by a scripted tape (byte j of call i is a function of (tape, i, j)) with scripted failures '
        '(ENOSYS) and interruptions (EINTR then EAGAIN); storage callbacks scripted (ok / -1 / short count).  Random histories of '
        '1..40 operations from {fetch, feed, reseed, save_seed, load_seed} with sizes {0,1,7,8,9,31,32,100,16383,16384,20000}: '
        '(1) each history is run twice -> identical outputs, statuses and final canonical state; an interrupted source must give '
        'the same result as an uninterrupted one; (2) one byte of a delivered entropy block or of a fed buffer is changed -> every '
        'later fetch of >= 8 bytes and the final state must differ, everything earlier must not; (3) after init and after every '
        'operation the 40 canonical state bytes go through the reference INVERSE permutation and the rate must be zero; (4) a '
        'non-empty fetch that starts with >= 16384 bytes handed out since the last source call must call the source before any '
        'byte of it is produced (the interposer records where in the fetch buffer each call happens; early and mid-fetch reseeds '
        'are allowed and counted); init/reseed/ascon_random make at least one source call and their status is non-zero iff ALL '
        'source calls they made succeeded (number and size of the calls are not constrained; a delivered block is only perturbed '
        'when all calls of its operation succeeded); save/load status exactly as documented in random.h (0 / -1); whether load '
        're-saves a fresh seed or draws from the source is recorded, not judged; all 2^k failure subsets for histories with '
        'k <= 8 source calls; distinct = (build, op, size, storage modes) and '
        '(build, history shape, fault kind)')
ASSUME = ['no output model of the PRNG is imposed (the property fixes structure, not a function)',
          'equality by chance of two >= 8-byte outputs (2^-64) is ignored']


def run(ctx):
    hs = [with_args(H['prng'], 'prng', [], 3000, 60000)]
    specs = [(Cfg('asm'), 'rel'), (Cfg('c32'), 'rel'), (Cfg('generic'), 'rel'), (Cfg('dxor'), 'asan')]
    if ctx.thorough:
        specs += [(Cfg('c64'), 'rel'), (Cfg('asm'), 'asan'), (Cfg('asm', checker=True), 'rel')]
    return run_matrix(ctx, hs, specs, RULE, level='fault_enumeration', assumptions=ASSUME)


def replay(ctx, rec):
    rc = replay_generic(ctx, rec, H)
    return run(ctx) if rc is None else rc
