"""C17: every documented C++ member compiles when used and equals the C API for every keying path.
Stage 1: one tiny translation unit per member/overload (compile probes, g++ -std=c++11).
Stage 2: h_cpp sessions (all keying paths x overloads) compared with the C functions."""
import concurrent.futures as cf
import os
import re
import subprocess

import core
from core import Cfg
from props._gen import run_matrix, replay_generic, with_args, H, diverse_specs

PRE = '''#include <ascon/aead.h>
#include <ascon/aead-masked.h>
#include <ascon/siv.h>
#include <ascon/isap.h>
#include <ascon/hash.h>
#include <ascon/xof.h>
#include <ascon/utility.h>
#include <string>
static unsigned char key[80], nonce[16], buf[256], buf2[256];
static ascon::byte_array ba, bb, bc;
static std::string str("abc");
'''


def probes():
    out = []
    ciphers = [('aead128', 0), ('aead128a', 0), ('aead80pq', 0), ('aead128_masked', 1), ('aead128a_masked', 1),
               ('aead80pq_masked', 1), ('siv128', 0), ('siv128a', 0), ('siv80pq', 0), ('isap128', 2), ('isap128a', 2), ('isap80pq', 2)]
    for c, kind in ciphers:
        T = 'ascon::' + c
        out.append((c + '::ctor()', '%s o; (void)o;' % T))
        if kind == 2:
            out.append((c + '::ctor(key,len)', '%s o(key, 16); (void)o;' % T))
            out.append((c + '::save_key', '%s o; o.save_key(key);' % T))
        else:
            out.append((c + '::ctor(key)', '%s o(key); (void)o;' % T))
        if kind == 1:
            out.append((c + '::randomize_key', '%s o; o.randomize_key();' % T))
        for name, code in [
            ('key_size', 'size_t v = o.key_size(); (void)v;'), ('tag_size', 'size_t v = o.tag_size(); (void)v;'),
            ('nonce_size', 'size_t v = o.nonce_size(); (void)v;'), ('set_key', 'bool v = o.set_key(key, 16); (void)v;'),
            ('set_nonce', 'o.set_nonce(nonce, 16);'), ('set_counter', 'o.set_counter(5);'),
            ('encrypt(ptr)', 'int v = o.encrypt(buf, buf2, 10); (void)v;'),
            ('encrypt(ptr,ad)', 'int v = o.encrypt(buf, buf2, 10, key, 4); (void)v;'),
            ('encrypt(byte_array)', 'o.encrypt(bc, ba);'), ('encrypt(byte_array,ad)', 'o.encrypt(bc, ba, bb);'),
            ('decrypt(ptr)', 'int v = o.decrypt(buf, buf2, 26); (void)v;'),
            ('decrypt(ptr,ad)', 'int v = o.decrypt(buf, buf2, 26, key, 4); (void)v;'),
            ('decrypt(byte_array)', 'bool v = o.decrypt(ba, bc); (void)v;'),
            ('decrypt(byte_array,ad)', 'bool v = o.decrypt(ba, bc, bb); (void)v;'),
            ('clear', 'o.clear();'),
            ('via-base-pointer', 'ascon::aead *p = &o; p->set_counter(1); int v = p->encrypt(buf, buf2, 3); (void)v;'),
        ]:
            out.append(('%s::%s' % (c, name), '%s o; %s' % (T, code)))
    for h in ('hash', 'hasha'):
        T = 'ascon::' + h
        for name, code in [
            ('ctor', ''), ('copy-ctor', '%s p(o); (void)p;' % T), ('assign', '%s p; p = o;' % T), ('reset', 'o.reset();'),
            ('update(ptr,len)', 'o.update(buf, 3);'), ('update(const char*)', 'o.update("abc");'),
            ('update(byte_array)', 'o.update(ba);'), ('update(std::string)', 'o.update(str);'),
            ('finalize(ptr)', 'o.finalize(buf);'), ('finalize()', 'ascon::byte_array d = o.finalize(); (void)d;'),
            ('digest', '%s::digest(buf, buf2, 5);' % T), ('state', 'o.state(); const %s &q = o; q.state();' % T),
        ]:
            out.append(('%s::%s' % (h, name), '%s o; %s' % (T, code)))
    xofs = [('xof_with_output_length<%s>' % n, n) for n in ('0', '1', '32', '64')] + \
           [('xofa_with_output_length<%s>' % n, n) for n in ('0', '1', '32', '64')] + [('xof', 'td'), ('xofa', 'td')]
    for x, _ in xofs:
        T = 'ascon::' + x
        for name, code in [
            ('ctor', '%s o; (void)o;' % T), ('copy-ctor', '%s o; %s p(o); (void)p;' % (T, T)),
            ('ctor(name)', '%s o("name"); (void)o;' % T), ('ctor(name,custom,len)', '%s o("name", key, 5); (void)o;' % T),
            ('ctor(name,byte_array)', '%s o("name", ba); (void)o;' % T), ('assign', '%s o, p; p = o;' % T),
            ('reset', '%s o; o.reset();' % T), ('absorb(ptr,len)', '%s o; o.absorb(buf, 3);' % T),
            ('absorb(const char*)', '%s o; o.absorb("abc");' % T), ('absorb(byte_array)', '%s o; o.absorb(ba);' % T),
            ('absorb(std::string)', '%s o; o.absorb(str);' % T), ('squeeze(ptr,len)', '%s o; o.squeeze(buf, 40);' % T),
            ('squeeze(len)', '%s o; ascon::byte_array d = o.squeeze(40); (void)d;' % T), ('pad', '%s o; o.pad();' % T),
            ('state', '%s o; o.state(); const %s &q = o; q.state();' % (T, T)),
        ]:
            out.append(('%s::%s' % (x, name), code))
    for name, code in [
        ('bytes_from_hex(ptr,len)', 'ascon::byte_array v = ascon::bytes_from_hex("0a0b", 4); (void)v;'),
        ('bytes_from_hex(ptr)', 'ascon::byte_array v = ascon::bytes_from_hex("0a0b"); (void)v;'),
        ('bytes_from_hex(std::string)', 'ascon::byte_array v = ascon::bytes_from_hex(str); (void)v;'),
        ('bytes_to_hex(ptr,len)', 'std::string s = ascon::bytes_to_hex(buf, 4); (void)s;'),
        ('bytes_to_hex(ptr,len,upper)', 'std::string s = ascon::bytes_to_hex(buf, 4, true); (void)s;'),
        ('bytes_to_hex(byte_array)', 'std::string s = ascon::bytes_to_hex(ba); (void)s;'),
        ('bytes_to_hex(byte_array,upper)', 'std::string s = ascon::bytes_to_hex(ba, true); (void)s;'),
        ('bytes_from_data', 'ascon::byte_array v = ascon::bytes_from_data(buf, 4); (void)v;'),
    ]:
        out.append(('utility::' + name, code))
    return out


def run_probes(ctx, b, compilers=('g++',)):
    pdir = os.path.join(b.dir, 'probes')
    os.makedirs(pdir, exist_ok=True)
    plist = probes()

    def one(args):
        i, (name, code), cxx = args
        src = os.path.join(pdir, 'p%d_%s.cpp' % (i, cxx.replace('+', 'x')))
        with open(src, 'w') as f:
            f.write(PRE + 'void probe() { %s }\n' % code)
        cmd = [cxx, '-std=c++11', '-fsyntax-only', '-Wno-vla', '-I' + os.path.join(core.REPO, 'src'), '-I' + b.dir, src]
        p = subprocess.run(cmd, stdout=subprocess.PIPE, stderr=subprocess.STDOUT, text=True)
        return name, cxx, p.returncode, p.stdout

    jobs = [(i, pr, cxx) for cxx in compilers for i, pr in enumerate(plist)]
    with cf.ThreadPoolExecutor(max_workers=core.NCPU) as ex:
        res = list(ex.map(one, jobs))
    nfail = 0
    for name, cxx, rc, out in res:
        ctx.distinct.add('probe|%s|%s' % (cxx, name))
        if rc:
            nfail += 1
            m = re.search(r'([\w\./\-]+\.h):(\d+):\d+: error: (.*)', out)
            where = '%s: %s' % (os.path.basename(m.group(1)), m.group(3)[:80]) if m else out.strip().splitlines()[0][:120]
            ctx.violations.append(core.Violation('C17', 'compile:%s' % name, {'compiler': cxx, 'member': name, 'diagnostic': where,
                                                                               'full': out[-1500:]}, build=b))
    ctx.counters['compile_probes'] = ctx.counters.get('compile_probes', 0) + len(res)
    ctx.counters['compile_probes_failed'] = ctx.counters.get('compile_probes_failed', 0) + nfail
    if len(ctx.samples) < 6:
        ctx.samples.append({'probe': plist[0][0], 'code': plist[0][1]})
    return len(res)


RULE = ('stage 1: one translation unit per documented member / overload (constructors, set_key, set_nonce, set_counter, pointer and '
        'byte_array encrypt/decrypt with and without AD, clear, randomize_key, save_key, hash/hasha update x4, finalize x2, digest, '
        'copy/assign/reset, xof<0,1,32,64> and xofa<...> absorb x4, squeeze x2, pad, three constructors, the xof/xofa typedefs, '
        'bytes_from_hex x3, bytes_to_hex x4, bytes_from_data) compiled with g++ -std=c++11 (clang++ too in the thorough tier); a '
        'diagnostic is a violation.  stage 2: sessions on the 12 cipher classes with keying path in {default ctor, key ctor, '
        'set_key full, set_key(ptr,0), set_key(NULL,0), ctor then set_key, ISAP set_key(saved,80), ISAP ctor(saved,80)}, nonce '
        'via set_nonce(len 0..40)/set_counter, 1..6 operations through pointer and byte_array overloads compared with the C '
        'function under the same key and nonce; set_key on an object that already has a nonce / is mid-session (judged against a control '
        'object keyed with the final key from the start); bytes_from_hex x3 / bytes_to_hex vs the C codec on valid, whitespace, odd, invalid and '
        'NUL-containing strings; ISAP save_key vs the C save_key; hash/hasha/xof<N>/xofa<N> through every overload vs the reference; distinct = '
        '(compiler, member) and (build, class, keying path / op kind / overload)')
ASSUME = ['compilers: g++ 12 (and clang++ 14 in thorough); other compilers are not covered',
          'wrong key lengths are exercised but only counted']


def run(ctx):
    ctx.rule = RULE
    specs = diverse_specs() if ctx.thorough else [(Cfg('asm', (4, 2, 4)), 'rel'), (Cfg('c32', (3, 3, 3)), 'rel')]
    builds = ctx.build_many(specs)
    nprobe = 0
    if builds[0].ok:
        nprobe = run_probes(ctx, builds[0], ('g++', 'clang++') if ctx.thorough else ('g++',))
    h = with_args(H['cpp'], 'cpp', [], 21000, 400000)
    h['compile_failure_is_violation'] = True
    hx = with_args(H['hex'], 'hex', [], 2500, 60000)      # byte-array helper functions vs the C codec
    return run_matrix(ctx, [h, hx], specs, RULE, assumptions=ASSUME)


def replay(ctx, rec):
    if rec.get('key', '').startswith('compile:'):
        return run(ctx)
    rc = replay_generic(ctx, rec, H)
    return run(ctx) if rc is None else rc
