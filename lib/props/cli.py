"""Driver for the command-line tools (C19; CLI part of C12).
Real asconcrypt / asconsum binaries built from /repo are run in private temp directories.
Faults are injected at the system-call level with `strace -e inject=...` (works for stdio
too; every injection is confirmed by the `(INJECTED)` marker in the strace log)."""
import concurrent.futures as cf
import hashlib
import os
import random
import re
import shutil
import subprocess
import zlib

import core
from core import Cfg, Violation

BUFSIZ = 8192
OVERHEAD = 96


class Cli:
    def __init__(self, ctx, flavour='rel'):
        self.ctx = ctx
        self.b = ctx.build(Cfg('asm'), flavour, targets=('ascon_static', 'asconcrypt', 'asconsum'))
        self.ok = self.b.ok and os.path.exists(self.b.tool('asconcrypt')) and os.path.exists(self.b.tool('asconsum'))
        self.crypt, self.sum = self.b.tool('asconcrypt'), self.b.tool('asconsum')
        self.env = self.b.env()
        self.n = 0
        self.root = os.path.join(ctx.scratch, 'cli-' + flavour)
        os.makedirs(self.root, exist_ok=True)
        self.runs = 0
        self.injected = 0
        self.refsum = None
        self.shim = None

    def block_shim(self):
        """LD_PRELOAD object that makes /dev/urandom, /dev/random, /dev/hwrng unopenable (h/devrandom_block.c)"""
        if self.shim is None:
            so = os.path.join(self.root, 'devrandom_block.so')
            p = subprocess.run(['gcc', '-shared', '-fPIC', '-O1', '-o', so, os.path.join(core.VERIF, 'h', 'devrandom_block.c'), '-ldl'],
                               stdout=subprocess.PIPE, stderr=subprocess.STDOUT, text=True)
            if p.returncode:
                raise core.HarnessError('devrandom_block.c does not compile: ' + p.stdout)
            self.shim = so
        return self.shim

    def workdir(self):
        self.n += 1
        d = os.path.join(self.root, 'w%d' % self.n)
        os.makedirs(d)
        return d

    def run(self, argv, cwd, stdin=None, inject=None, path_filter=None, timeout=120, block_random_devices=False, trace_also=None, trace_only=None):
        """-> (rc, stdout bytes, stderr text, injected count)"""
        self.runs += 1
        cmd = list(argv)
        log = None
        env = self.env
        if block_random_devices:
            env = dict(self.env, LD_PRELOAD=self.block_shim(), VF_BLOCK_LOG=os.path.join(cwd, 'blocked.log'))
        self.last_log = ''
        if trace_only:
            log = os.path.join(cwd, 'strace.%d.log' % self.runs)
            cmd = ['strace', '-f', '-o', log, '-e', 'trace=' + trace_only] + list(argv)
        if inject:
            log = os.path.join(cwd, 'strace.%d.log' % self.runs)
            cmd = ['strace', '-f', '-o', log, '-e', 'trace=' + inject.split(':')[0] + (',' + trace_also if trace_also else ''), '-e', 'inject=' + inject]
            if path_filter:
                cmd += ['-P', os.path.join(cwd, path_filter)]
            cmd += list(argv)
        try:
            p = subprocess.run(cmd, cwd=cwd, input=stdin, stdout=subprocess.PIPE, stderr=subprocess.PIPE, env=env, timeout=timeout)
            rc, out, err = p.returncode, p.stdout, p.stderr.decode('utf8', 'replace')
        except subprocess.TimeoutExpired:
            rc, out, err = 'timeout', b'', ''
        if block_random_devices and os.path.exists(os.path.join(cwd, 'blocked.log')):
            self.ctx.counters['random_device_opens_blocked'] = self.ctx.counters.get('random_device_opens_blocked', 0) + 1
            os.unlink(os.path.join(cwd, 'blocked.log'))
        inj = 0
        if log and os.path.exists(log):
            with open(log, errors='replace') as f:
                self.last_log = f.read()
            inj = self.last_log.count('(INJECTED)')
            os.unlink(log)
        self.injected += inj
        return rc, out, err, inj

    def run_slow_pipe(self, argv, cwd, timeout=120):
        """stdout of the tool is a NON-BLOCKING pipe that is drained slowly: write() accepts only part of a request (a genuine short
        write, which strace cannot simulate).  -> (rc, bytes received)"""
        import fcntl
        import time
        self.runs += 1
        r, w = os.pipe()
        fcntl.fcntl(w, fcntl.F_SETFL, fcntl.fcntl(w, fcntl.F_GETFL) | os.O_NONBLOCK)
        p = subprocess.Popen(list(argv), cwd=cwd, stdout=w, stderr=subprocess.DEVNULL, stdin=subprocess.DEVNULL, env=self.env)
        os.close(w)
        chunks = []
        t0 = time.time()
        while True:
            b = os.read(r, 3001)
            if not b:
                break
            chunks.append(b)
            if len(chunks) % 4 == 0:
                time.sleep(0.0005)
            if time.time() - t0 > timeout:
                p.kill()
                break
        os.close(r)
        return p.wait(), b''.join(chunks)

    def count_syscalls(self, argv, cwd, name, path_filter, stdin=None):
        log = os.path.join(cwd, 'count.log')
        cmd = ['strace', '-f', '-o', log, '-e', 'trace=' + name, '-P', os.path.join(cwd, path_filter)] + list(argv)
        subprocess.run(cmd, cwd=cwd, input=stdin, stdout=subprocess.PIPE, stderr=subprocess.PIPE, env=self.env, timeout=120)
        with open(log, errors='replace') as f:
            n = sum(1 for l in f if re.search(r'\b%s\(' % name, l))
        os.unlink(log)
        return n


def vio(ctx, cli, prop, key, **detail):
    detail['build'] = cli.b.name
    ctx.violations.append(Violation(prop, key, detail, build=cli.b, harness='cli'))


def sanitizer_hit(err):
    return 'AddressSanitizer' in err or 'runtime error:' in err


def check_sanitizer(ctx, cli, rc, err, what, argv_desc):
    """C12: a sanitizer report or a crash signal from a tool"""
    if sanitizer_hit(err) or (isinstance(rc, int) and rc < 0) or rc in (98, 99):
        kind, _ = core.classify_crash(rc, err)
        vio(ctx, cli, 'C12', 'cli:%s:%s' % (what, kind), argv=argv_desc, exit=rc, stderr_tail=err[-1500:])
        return True
    return False


def content(rng, size, kind):
    if kind == 'zero':
        return bytes(size)
    if kind == 'text':
        return (b'The quick brown fox jumps over the lazy dog.\n' * (size // 45 + 1))[:size]
    return bytes(rng.getrandbits(8) for _ in range(size)) if size < 4096 else rng.randbytes(size)


def password(rng):
    n = rng.choice([1, 2, 8, 16, 40, 100, 255, 1000, 1023])
    alphabet = 'abcdefghijklmnopqrstuvwxyzABCDEFGHIJKLMNOPQRSTUVWXYZ0123456789 !#%+,-./:=@_~' + 'äßé€'
    s = ''.join(rng.choice(alphabet) for _ in range(n))
    while len(s.encode()) > 1023:
        s = s[:-1]
    if s.startswith('-'):
        s = 'x' + s[1:]
    return s or 'p'


# ------------------------------------------------------------------------------------------------ C19
def run_c19(ctx):
    rng = random.Random(ctx.seed * 7919 + 19)
    cli = Cli(ctx, 'rel')
    if not cli.b.ok or not cli.ok:
        ctx.build_failed(cli.b)
        return
    # reference digests
    refsum = os.path.join(ctx.scratch, 'refsum')
    p = subprocess.run(['gcc', '-O2', '-o', refsum, os.path.join(core.VERIF, 'h', 'refsum.c'), os.path.join(core.VERIF, 'ref', 'ascon_ref.c'),
                        '-I' + os.path.join(core.VERIF, 'ref')], stdout=subprocess.PIPE, stderr=subprocess.STDOUT, text=True)
    if p.returncode:
        raise core.HarnessError('refsum: ' + p.stdout)
    cli.refsum = refsum
    B = BUFSIZ
    sizes = [0, 1, 15, 16, 17, 100, B - 17, B - 16, B - 15, B - 1, B, B + 1, 2 * B - 16, 2 * B, 3 * B + 5]
    if ctx.thorough:
        sizes += [1 << 20, 5 * B - 1, 4 * B + 16, 65536 + 17]
    jobs = []
    # ---- round trips
    styles = ['explicit', 'default-names', 'keyfile', 'stdio', 'decrypted-suffix']
    for i, size in enumerate(sizes):
        for j, style in enumerate(styles):
            if not ctx.thorough and (i + j) % 2 and size not in (0, B, B - 16):
                continue
            jobs.append(('roundtrip', size, style, rng.choice(['random', 'zero', 'text']), password(rng)))
    # ---- tamper
    for size in ([0, 1, 40, B - 16, B + 3] if not ctx.thorough else [0, 1, 16, 40, B - 16, B + 3, 2 * B - 32, 2 * B + 1]):
        jobs.append(('tamper', size, password(rng), 5 if ctx.thorough else 97))
    # ---- I/O faults
    for size in ([0, 100, 3 * B + 5] if not ctx.thorough else [0, 1, 100, B - 16, B, 2 * B + 7, 3 * B + 5, 6 * B]):
        jobs.append(('iofault', size, password(rng)))
    jobs.append(('slowpipe', 400123 if not ctx.thorough else 1500007, password(rng)))
    jobs.append(('genkey',))
    # ---- asconsum
    jobs.append(('sum', sizes))
    jobs.append(('sumcheck',))

    def do(job):
        try:
            if job[0] == 'roundtrip':
                return roundtrip(ctx, cli, random.Random(zlib.crc32(repr(job).encode()) ^ ctx.seed), *job[1:])
            if job[0] == 'tamper':
                return tamper(ctx, cli, random.Random(zlib.crc32(repr(job).encode()) ^ ctx.seed), *job[1:])
            if job[0] == 'iofault':
                return iofault(ctx, cli, random.Random(zlib.crc32(repr(job).encode()) ^ ctx.seed), *job[1:])
            if job[0] == 'slowpipe':
                return slowpipe(ctx, cli, random.Random(zlib.crc32(repr(job).encode()) ^ ctx.seed), *job[1:])
            if job[0] == 'genkey':
                return genkey(ctx, cli)
            if job[0] == 'sum':
                return sumfiles(ctx, cli, random.Random(ctx.seed), job[1])
            if job[0] == 'sumcheck':
                return sumcheck(ctx, cli, random.Random(ctx.seed + 1))
        except core.HarnessError:
            raise
        except Exception as e:  # harness bug: make it loud
            import traceback
            ctx.inconclusive.append('cli job %s: %s' % (job[0], traceback.format_exc()[-800:]))
        return 0

    with cf.ThreadPoolExecutor(max_workers=core.NCPU) as ex:
        list(ex.map(do, jobs))
    ctx.counters['process_runs'] = cli.runs
    ctx.counters['faults_injected_and_confirmed'] = cli.injected
    ctx.counters['cases'] = ctx.counters.get('cases', 0) + cli.runs
    shutil.rmtree(cli.root, ignore_errors=True)


def enc_dec(cli, d, data, pw, name='in.bin'):
    """encrypt `data` with -o; returns (encrypted bytes or None, rc, err)"""
    with open(os.path.join(d, name), 'wb') as f:
        f.write(data)
    rc, out, err, _ = cli.run([cli.crypt, '-e', '-p', pw, '-o', 'enc.bin', name], d)
    enc = None
    if rc == 0 and os.path.exists(os.path.join(d, 'enc.bin')):
        with open(os.path.join(d, 'enc.bin'), 'rb') as f:
            enc = f.read()
    return enc, rc, err


def roundtrip(ctx, cli, rng, size, style, kind, pw):
    d = cli.workdir()
    data = content(rng, size, kind)
    desc = dict(size=size, style=style, content=kind, pwlen=len(pw.encode()))
    ctx.distinct.add('roundtrip|%s|size%d' % (style, size))
    with open(os.path.join(d, 'in.bin'), 'wb') as f:
        f.write(data)
    pwargs = ['-p', pw]
    if style == 'keyfile':
        variant = rng.choice(['lf', 'nolf', 'crlf', 'second-line'])
        with open(os.path.join(d, 'key.txt'), 'wb') as f:
            f.write(pw.encode() + {'lf': b'\n', 'nolf': b'', 'crlf': b'\r\n', 'second-line': b'\nignored line\n'}[variant])
        pwargs = ['-k', 'key.txt']
        desc['keyfile'] = variant
    if style in ('explicit', 'keyfile'):
        rc, _, err, _ = cli.run([cli.crypt, '-e'] + pwargs + ['-o', 'enc.bin', 'in.bin'], d)
        encp, decp = 'enc.bin', 'dec.bin'
        rc2 = None
        if rc == 0:
            rc2, _, err2, _ = cli.run([cli.crypt, '-d'] + pwargs + ['-o', 'dec.bin', 'enc.bin'], d)
    elif style == 'default-names':
        rc, _, err, _ = cli.run([cli.crypt] + pwargs + ['in.bin'], d)           # -> in.bin.ascon (auto-detect: encrypt)
        encp, decp = 'in.bin.ascon', 'in.bin'
        rc2 = None
        if rc == 0:
            os.unlink(os.path.join(d, 'in.bin'))
            rc2, _, err2, _ = cli.run([cli.crypt] + pwargs + ['in.bin.ascon'], d)   # auto-detect: decrypt, strips .ascon
    elif style == 'decrypted-suffix':
        rc, _, err, _ = cli.run([cli.crypt, '-e'] + pwargs + ['-o', 'cipher.dat', 'in.bin'], d)
        encp, decp = 'cipher.dat', 'cipher.dat.decrypted'
        rc2 = None
        if rc == 0:
            rc2, _, err2, _ = cli.run([cli.crypt, '-d'] + pwargs + ['cipher.dat'], d)
    else:  # stdio
        rc, out, err, _ = cli.run([cli.crypt, '-e'] + pwargs + ['-'], d, stdin=data)
        with open(os.path.join(d, 'enc.bin'), 'wb') as f:
            f.write(out)
        encp, decp = 'enc.bin', 'dec.bin'
        rc2 = None
        if rc == 0:
            rc2, out2, err2, _ = cli.run([cli.crypt, '-d'] + pwargs + ['-'], d, stdin=out)
            with open(os.path.join(d, 'dec.bin'), 'wb') as f:
                f.write(out2)
    if style == 'keyfile' and rc == 0 and rc2 == 0:
        # the same password through the other entry point, and a wrong password through the same one: -k and -p must agree on
        # what the password is (all of its bytes, whatever their value)
        rc3, _, err3, _ = cli.run([cli.crypt, '-d', '-p', pw, '-o', 'dec2.bin', 'enc.bin'], d)
        got2 = open(os.path.join(d, 'dec2.bin'), 'rb').read() if os.path.exists(os.path.join(d, 'dec2.bin')) else None
        if rc3 != 0 or got2 != data:
            vio(ctx, cli, 'C19', 'asconcrypt:roundtrip:keyfile-vs-option-password', exit=rc3, stderr=err3[-200:], password=pw.encode().hex()[:80], **desc)
        rc4, _, _, _ = cli.run([cli.crypt, '-e', '-p', pw, '-o', 'enc3.bin', 'in.bin'], d)
        if rc4 == 0:
            rc5, _, err5, _ = cli.run([cli.crypt, '-d', '-k', 'key.txt', '-o', 'dec3.bin', 'enc3.bin'], d)
            got3 = open(os.path.join(d, 'dec3.bin'), 'rb').read() if os.path.exists(os.path.join(d, 'dec3.bin')) else None
            if rc5 != 0 or got3 != data:
                vio(ctx, cli, 'C19', 'asconcrypt:roundtrip:option-vs-keyfile-password', exit=rc5, stderr=err5[-200:], password=pw.encode().hex()[:80], **desc)
        wrong = pw[:-1] + ('y' if pw[-1] != 'y' else 'z')
        with open(os.path.join(d, 'wrong.txt'), 'wb') as f:
            f.write(wrong.encode() + b'\n')
        rc6, _, _, _ = cli.run([cli.crypt, '-d', '-k', 'wrong.txt', '-o', 'dec4.bin', 'enc.bin'], d)
        if rc6 == 0 or os.path.exists(os.path.join(d, 'dec4.bin')):
            vio(ctx, cli, 'C19', 'asconcrypt:wrong-password-accepted:keyfile', exit=rc6, output_left=os.path.exists(os.path.join(d, 'dec4.bin')),
                password=pw.encode().hex()[:80], wrong=wrong.encode().hex()[:80], **desc)
        ctx.counters['keyfile_cross_entry_checks'] = ctx.counters.get('keyfile_cross_entry_checks', 0) + 1
    if rc != 0:
        vio(ctx, cli, 'C19', 'asconcrypt:roundtrip:encrypt-failed:%s' % style, exit=rc, stderr=err[-300:], **desc)
    else:
        esz = os.path.getsize(os.path.join(d, encp)) if os.path.exists(os.path.join(d, encp)) else -1
        if esz != size + OVERHEAD:
            vio(ctx, cli, 'C19', 'asconcrypt:roundtrip:encrypted-size:%s' % style, encrypted_size=esz, expected=size + OVERHEAD, **desc)
        if rc2 != 0:
            vio(ctx, cli, 'C19', 'asconcrypt:roundtrip:decrypt-failed:%s' % style, exit=rc2, stderr=err2[-300:], **desc)
        else:
            got = open(os.path.join(d, decp), 'rb').read() if os.path.exists(os.path.join(d, decp)) else None
            if got != data:
                vio(ctx, cli, 'C19', 'asconcrypt:roundtrip:content-differs:%s' % style, got_size=None if got is None else len(got), **desc)
    if len(ctx.samples) < 2:
        ctx.samples.append({'kind': 'roundtrip', **desc})
    shutil.rmtree(d, ignore_errors=True)


def expect_reject(ctx, cli, d, pw, blob, what, pos, size):
    with open(os.path.join(d, 't.enc'), 'wb') as f:
        f.write(blob)
    out = os.path.join(d, 't.out')
    if os.path.exists(out):
        os.unlink(out)
    rc, _, err, _ = cli.run([cli.crypt, '-d', '-p', pw, '-o', 't.out', 't.enc'], d)
    if rc == 0:
        vio(ctx, cli, 'C19', 'asconcrypt:tamper:accepted:%s' % what, position=pos, plaintext_size=size, exit=rc)
    elif os.path.exists(out):
        vio(ctx, cli, 'C19', 'asconcrypt:tamper:output-left-behind:%s' % what, position=pos, plaintext_size=size, exit=rc,
            left_size=os.path.getsize(out))
    ctx.counters['tamper_runs'] = ctx.counters.get('tamper_runs', 0) + 1


def tamper(ctx, cli, rng, size, pw, step=97):
    d = cli.workdir()
    data = content(rng, size, 'random')
    enc, rc, err = enc_dec(cli, d, data, pw)
    if enc is None:
        vio(ctx, cli, 'C19', 'asconcrypt:tamper:setup-encrypt-failed', exit=rc, size=size)
        return
    n = len(enc)
    small = n <= 400
    pos_flip = list(range(n)) if small else sorted(set(list(range(OVERHEAD)) + list(range(OVERHEAD, n, step)) + list(range(n - 40, n))))
    for p in pos_flip:
        blob = bytearray(enc)
        blob[p] ^= 1 << rng.randrange(8)
        expect_reject(ctx, cli, d, pw, bytes(blob), 'bitflip-' + ('header' if p < 28 else 'sivblock' if p < 80 else 'tag' if p >= n - 16 else 'payload'), p, size)
    lens = list(range(n)) if small else sorted(set(list(range(0, 130)) + list(range(130, n, step)) + list(range(n - 40, n))))
    for l in lens:
        expect_reject(ctx, cli, d, pw, enc[:l], 'truncate', l, size)
    for extra in (1, 2, 15, 16, 17, 20):
        expect_reject(ctx, cli, d, pw, enc + bytes(rng.getrandbits(8) for _ in range(extra)), 'append', extra, size)
    expect_reject(ctx, cli, d, pw + 'x', enc, 'wrong-password', 0, size)
    expect_reject(ctx, cli, d, pw[:-1] if len(pw) > 1 else 'zz', enc, 'wrong-password', 1, size)
    ctx.distinct.add('tamper|size%d|flips%d|truncations%d' % (size, len(pos_flip), len(lens)))
    if len(ctx.samples) < 4:
        ctx.samples.append({'kind': 'tamper', 'plaintext_size': size, 'bitflip_positions': len(pos_flip), 'truncation_lengths': len(lens)})
    shutil.rmtree(d, ignore_errors=True)


def iofault(ctx, cli, rng, size, pw):
    d = cli.workdir()
    data = content(rng, size, 'random')
    enc, rc, err = enc_dec(cli, d, data, pw)
    if enc is None:
        vio(ctx, cli, 'C19', 'asconcrypt:iofault:setup-encrypt-failed', exit=rc, size=size)
        return
    ops = {
        'encrypt': ([cli.crypt, '-e', '-p', pw, '-o', 'o.enc', 'in.bin'], 'in.bin', 'o.enc'),
        'decrypt': ([cli.crypt, '-d', '-p', pw, '-o', 'o.dec', 'enc.bin'], 'enc.bin', 'o.dec'),
    }
    for opname, (argv, inp, outp) in ops.items():
        outpath = os.path.join(d, outp)
        nw = cli.count_syscalls(argv, d, 'write', outp)
        nr = cli.count_syscalls(argv, d, 'read', inp)
        ctx.distinct.add('iofault|%s|size%d|writes%d|reads%d' % (opname, size, nw, nr))

        def expect_fail(inject, pf, what, k, block_random_devices=False):
            if os.path.exists(outpath):
                os.unlink(outpath)
            rc, _, err, inj = cli.run(argv, d, inject=inject, path_filter=pf, block_random_devices=block_random_devices)
            if inj == 0:
                ctx.counters['injections_not_reached'] = ctx.counters.get('injections_not_reached', 0) + 1
                return
            if check_sanitizer(ctx, cli, rc, err, 'iofault', inject):
                return
            if rc == 0:
                vio(ctx, cli, 'C19', 'asconcrypt:iofault:exit-zero:%s:%s' % (opname, what), inject=inject, k=k, size=size,
                    output_exists=os.path.exists(outpath))
            elif os.path.exists(outpath):
                vio(ctx, cli, 'C19', 'asconcrypt:iofault:partial-output-left:%s:%s' % (opname, what), inject=inject, k=k, size=size,
                    left_size=os.path.getsize(outpath), exit=rc)

        def expect_ok(inject, pf, what, k):
            if os.path.exists(outpath):
                os.unlink(outpath)
            rc, _, err, inj = cli.run(argv, d, inject=inject, path_filter=pf)
            if inj == 0:
                return
            good = rc == 0 and os.path.exists(outpath)
            if good and opname == 'decrypt':
                good = open(outpath, 'rb').read() == data
            if good and opname == 'encrypt':
                rc2, _, _, _ = cli.run([cli.crypt, '-d', '-p', pw, '-o', 'chk.dec', outp], d)
                good = rc2 == 0 and open(os.path.join(d, 'chk.dec'), 'rb').read() == data
            if not good:
                vio(ctx, cli, 'C19', 'asconcrypt:iofault:interrupted-call-not-retried:%s:%s' % (opname, what), inject=inject, k=k, size=size, exit=rc)

        for k in range(1, nw + 1):
            expect_fail('write:error=ENOSPC:when=%d' % k, outp, 'write-ENOSPC', k)
            expect_ok('write:error=EINTR:when=%d' % k, outp, 'write-EINTR', k)
        for k in range(1, nr + 1):
            expect_fail('read:error=EIO:when=%d' % k, inp, 'read-EIO', k)
            expect_ok('read:error=EINTR:when=%d' % k, inp, 'read-EINTR', k)
        expect_fail('openat:error=EACCES:when=1', outp, 'open-output-EACCES', 1)
        if opname == 'encrypt':
            # "the random source fails": EVERY getrandom call fails and the random device files cannot be opened.  (A single
            # refused call is not a failed source if the tool gets its entropy another way: then it may fail closed or succeed.)
            expect_fail('getrandom:error=ENOSYS', None, 'random-source-unavailable', 0, block_random_devices=True)
            # a single refused request: first see which getrandom calls the un-faulted run makes (glibc's malloc makes one of its
            # own, 8 bytes with GRND_NONBLOCK, whose failure glibc ignores - not the tool's business)
            if os.path.exists(outpath):
                os.unlink(outpath)
            cli.run(argv, d, trace_only='getrandom,openat')
            base_calls = re.findall(r'getrandom\((?:[^,]*), (\d+), ([A-Z_|0-9x]+)\)', cli.last_log)
            own = [i + 1 for i, (sz, fl) in enumerate(base_calls) if 'GRND_NONBLOCK' not in fl]
            for k in own[:3]:
                if os.path.exists(outpath):
                    os.unlink(outpath)
                rc, _, err, inj = cli.run(argv, d, inject='getrandom:error=ENOSYS:when=%d' % k, trace_also='openat')
                after = cli.last_log.split('(INJECTED)', 1)[1] if '(INJECTED)' in cli.last_log else ''
                alt = bool(re.search(r'openat\([^)]*"/dev/u?random"[^)]*\) = \d', after)) or len(re.findall(r'getrandom\(', cli.last_log)) > len(base_calls)
                if inj and rc == 0:
                    rc2, _, _, _ = cli.run([cli.crypt, '-d', '-p', pw, '-o', 'chk.dec', outp], d)
                    okk = rc2 == 0 and os.path.exists(os.path.join(d, 'chk.dec')) and open(os.path.join(d, 'chk.dec'), 'rb').read() == data
                    ctx.counters['single_getrandom_failure_survived'] = ctx.counters.get('single_getrandom_failure_survived', 0) + 1
                    if not alt:
                        # exit 0 although one of the tool's own entropy requests was refused and nothing replaced it (no retry,
                        # no random device opened): the failure of the random source was ignored
                        vio(ctx, cli, 'C19', 'asconcrypt:iofault:exit-zero:%s:getrandom-ENOSYS-ignored' % opname, k=k, size=size, output_exists=os.path.exists(outpath),
                            getrandom_calls=len(re.findall(r'getrandom\(', cli.last_log)), baseline_calls=len(base_calls))
                    elif not okk:
                        vio(ctx, cli, 'C19', 'asconcrypt:iofault:exit-zero-with-unusable-output:getrandom-ENOSYS', k=k, size=size, decrypt_exit=rc2)
                elif inj and os.path.exists(outpath):
                    vio(ctx, cli, 'C19', 'asconcrypt:iofault:partial-output-left:%s:getrandom-ENOSYS' % opname, k=k, size=size, exit=rc)
                elif inj:
                    ctx.counters['single_getrandom_failure_failed_closed'] = ctx.counters.get('single_getrandom_failure_failed_closed', 0) + 1
            expect_ok('getrandom:error=EINTR:when=1', None, 'getrandom-EINTR', 1)
    if len(ctx.samples) < 6:
        ctx.samples.append({'kind': 'iofault', 'size': size, 'faults': 'k-th write ENOSPC / EINTR, k-th read EIO / EINTR for every k; open EACCES; getrandom ENOSYS/EINTR'})
    shutil.rmtree(d, ignore_errors=True)


def slowpipe(ctx, cli, rng, size, pw):
    """the tool writes to a non-blocking pipe that is drained slowly, so write() returns short counts: the bytes that arrive must
    still be exactly the output (decrypt: the plaintext; encrypt: something that decrypts to the plaintext)"""
    d = cli.workdir()
    data = content(rng, size, 'random')
    with open(os.path.join(d, 'in.bin'), 'wb') as f:
        f.write(data)
    ctx.distinct.add('slowpipe|size%d' % size)
    rc, _, err, _ = cli.run([cli.crypt, '-e', '-p', pw, '-o', 'enc.bin', 'in.bin'], d)
    if rc != 0:
        vio(ctx, cli, 'C19', 'asconcrypt:roundtrip:encrypt-failed:slowpipe', exit=rc, size=size)
    else:
        rc1, got = cli.run_slow_pipe([cli.crypt, '-d', '-p', pw, '-o', '-', 'enc.bin'], d)
        if rc1 == 0 and got != data:
            first = next((i for i in range(min(len(got), len(data))) if got[i] != data[i]), min(len(got), len(data)))
            vio(ctx, cli, 'C19', 'asconcrypt:roundtrip:content-differs:decrypt-to-slow-pipe', size=size, received=len(got), first_difference=first, exit=rc1)
        elif rc1 != 0:
            ctx.counters['slow_pipe_runs_that_failed_closed'] = ctx.counters.get('slow_pipe_runs_that_failed_closed', 0) + 1
        rc2, enc = cli.run_slow_pipe([cli.crypt, '-e', '-p', pw, '-o', '-', 'in.bin'], d)
        if rc2 == 0:
            with open(os.path.join(d, 'enc2.bin'), 'wb') as f:
                f.write(enc)
            rc3, _, _, _ = cli.run([cli.crypt, '-d', '-p', pw, '-o', 'dec2.bin', 'enc2.bin'], d)
            got2 = open(os.path.join(d, 'dec2.bin'), 'rb').read() if os.path.exists(os.path.join(d, 'dec2.bin')) else None
            if rc3 != 0 or got2 != data:
                vio(ctx, cli, 'C19', 'asconcrypt:roundtrip:content-differs:encrypt-to-slow-pipe', size=size, received=len(enc), decrypt_exit=rc3)
        else:
            ctx.counters['slow_pipe_runs_that_failed_closed'] = ctx.counters.get('slow_pipe_runs_that_failed_closed', 0) + 1
        ctx.counters['slow_pipe_runs'] = ctx.counters.get('slow_pipe_runs', 0) + 2
    shutil.rmtree(d, ignore_errors=True)


def genkey(ctx, cli):
    d = cli.workdir()
    rc, _, err, _ = cli.run([cli.crypt, '-g', 'k.txt'], d)
    kp = os.path.join(d, 'k.txt')
    ctx.distinct.add('genkey')
    if rc != 0 or not os.path.exists(kp):
        vio(ctx, cli, 'C19', 'asconcrypt:genkey:failed', exit=rc)
    else:
        k = open(kp, 'rb').read()
        if not re.fullmatch(rb'[0-9a-zA-Z%$]{40}\n', k):
            vio(ctx, cli, 'C19', 'asconcrypt:genkey:format', content=repr(k[:60]))
        # usable as a key file
        with open(os.path.join(d, 'in.bin'), 'wb') as f:
            f.write(b'hello')
        rc1, _, _, _ = cli.run([cli.crypt, '-e', '-k', 'k.txt', '-o', 'e', 'in.bin'], d)
        rc2, _, _, _ = cli.run([cli.crypt, '-d', '-p', k[:-1].decode(), '-o', 'o', 'e'], d)
        if rc1 or rc2 or open(os.path.join(d, 'o'), 'rb').read() != b'hello':
            vio(ctx, cli, 'C19', 'asconcrypt:genkey:not-usable', rc1=rc1, rc2=rc2)
    for inject, what in (('write:error=ENOSPC:when=1', 'write-ENOSPC'), ('getrandom:error=ENOSYS', 'random-source-unavailable')):
        if os.path.exists(kp):
            os.unlink(kp)
        rc, _, err, inj = cli.run([cli.crypt, '-g', 'k.txt'], d, inject=inject, path_filter='k.txt' if inject.startswith('write') else None,
                                  block_random_devices=inject.startswith('getrandom'))
        if inj and rc == 0:
            vio(ctx, cli, 'C19', 'asconcrypt:genkey:exit-zero:%s' % what, inject=inject, keyfile_exists=os.path.exists(kp),
                keyfile_size=os.path.getsize(kp) if os.path.exists(kp) else None)
        elif inj and os.path.exists(kp):
            vio(ctx, cli, 'C19', 'asconcrypt:genkey:partial-keyfile-left:%s' % what, inject=inject, exit=rc)
    shutil.rmtree(d, ignore_errors=True)


def ref_digest(cli, alg, path):
    p = subprocess.run([cli.refsum, alg, path], stdout=subprocess.PIPE, text=True)
    return p.stdout.strip()


def sumfiles(ctx, cli, rng, sizes):
    d = cli.workdir()
    names = []
    for i, s in enumerate(sizes):
        nm = 'f%d.dat' % i
        with open(os.path.join(d, nm), 'wb') as f:
            f.write(content(rng, s, rng.choice(['random', 'zero', 'text'])))
        names.append(nm)
    for flag, alg in (('-h', 'hash'), ('-a', 'hasha'), ('-x', 'xof'), ('-y', 'xofa'), (None, 'hash')):
        argv = [cli.sum] + ([flag] if flag else []) + names
        rc, out, err, _ = cli.run(argv, d)
        lines = out.decode('utf8', 'replace').splitlines()
        ctx.distinct.add('sum|%s|files%d' % (alg, len(names)))
        if rc != 0 or len(lines) != len(names):
            vio(ctx, cli, 'C19', 'asconsum:hash:exit-or-line-count', alg=alg, exit=rc, lines=len(lines), files=len(names))
            continue
        for nm, line in zip(names, lines):
            want = '%s  %s' % (ref_digest(cli, alg, os.path.join(d, nm)), nm)
            if line != want:
                vio(ctx, cli, 'C19', 'asconsum:hash:digest-line:%s' % alg, file=nm, size=os.path.getsize(os.path.join(d, nm)), got=line[:120], want=want)
        # stdin
        data = open(os.path.join(d, names[-1]), 'rb').read()
        rc, out, err, _ = cli.run([cli.sum] + ([flag] if flag else []), d, stdin=data)
        want = '%s  -' % ref_digest(cli, alg, os.path.join(d, names[-1]))
        if rc != 0 or out.decode().strip('\n') != want:
            vio(ctx, cli, 'C19', 'asconsum:hash:stdin:%s' % alg, exit=rc, got=out[:100].decode('utf8', 'replace'), want=want)
    # unreadable / missing file -> non-zero, other files still printed
    rc, out, err, _ = cli.run([cli.sum, names[0], 'missing.dat', names[1]], d)
    if rc == 0:
        vio(ctx, cli, 'C19', 'asconsum:hash:missing-file-exit-zero', exit=rc)
    rc, out, err, inj = cli.run([cli.sum, names[5]], d, inject='read:error=EIO:when=1', path_filter=names[5])
    if inj and rc == 0:
        vio(ctx, cli, 'C19', 'asconsum:hash:read-error-exit-zero', exit=rc, stdout=out[:100].decode('utf8', 'replace'))
    if inj and out.strip():
        vio(ctx, cli, 'C19', 'asconsum:hash:digest-printed-after-read-error', stdout=out[:100].decode('utf8', 'replace'))
    shutil.rmtree(d, ignore_errors=True)


def sumcheck(ctx, cli, rng):
    d = cli.workdir()
    names = ['a.bin', 'b b.txt', 'c.dat', 'd', 'e.x']
    for i, nm in enumerate(names):
        with open(os.path.join(d, nm), 'wb') as f:
            f.write(content(rng, [0, 5, BUFSIZ, BUFSIZ + 1, 3000][i], 'random'))
    for flag, alg in (('-h', 'hash'), ('-a', 'hasha'), ('-x', 'xof'), ('-y', 'xofa')):
        sums = ''.join('%s  %s\n' % (ref_digest(cli, alg, os.path.join(d, nm)), nm) for nm in names)
        ctx.distinct.add('sumcheck|%s' % alg)

        def check(text, what, want_rc0, want_ok, stdin_mode=False, inject=None, pf=None):
            with open(os.path.join(d, 'sums.txt'), 'w') as f:
                f.write(text)
            if stdin_mode:
                rc, out, err, inj = cli.run([cli.sum, flag, '-c'], d, stdin=text.encode())
            else:
                rc, out, err, inj = cli.run([cli.sum, flag, '-c', 'sums.txt'], d, inject=inject, path_filter=pf)
            if inject and not inj:
                return
            lines = out.decode('utf8', 'replace').splitlines()
            ok_names = [l[:-4] for l in lines if l.endswith(': OK')]
            if (rc == 0) != want_rc0:
                vio(ctx, cli, 'C19', 'asconsum:check:exit-status:%s' % what, alg=alg, exit=rc, want_zero=want_rc0, stdout=out[:300].decode('utf8', 'replace'))
            if sorted(ok_names) != sorted(want_ok):
                vio(ctx, cli, 'C19', 'asconsum:check:ok-set:%s' % what, alg=alg, ok=ok_names, want=want_ok)
            ctx.counters['sumcheck_runs'] = ctx.counters.get('sumcheck_runs', 0) + 1

        check(sums, 'all-unmodified', True, names)
        check(sums, 'all-unmodified-stdin', True, names, stdin_mode=True)
        check(sums.replace('\n', '\r\n'), 'crlf', True, names)
        check(sums.upper().replace('A.BIN', 'a.bin').replace('B B.TXT', 'b b.txt').replace('C.DAT', 'c.dat').replace('  D\n', '  d\n').replace('E.X', 'e.x'), 'uppercase-hex', True, names)
        # one file modified
        p = os.path.join(d, 'c.dat')
        orig = open(p, 'rb').read()
        mod = bytearray(orig); mod[rng.randrange(len(mod))] ^= 0x20
        open(p, 'wb').write(mod)
        check(sums, 'one-modified', False, [n for n in names if n != 'c.dat'])
        open(p, 'wb').write(orig + b'\0')
        check(sums, 'one-extended', False, [n for n in names if n != 'c.dat'])
        open(p, 'wb').write(orig)
        os.rename(os.path.join(d, 'd'), os.path.join(d, 'd.gone'))
        check(sums, 'one-missing', False, [n for n in names if n != 'd'])
        os.rename(os.path.join(d, 'd.gone'), os.path.join(d, 'd'))
        check(sums, 'one-unreadable', False, [n for n in names if n != 'e.x'], inject='read:error=EIO:when=1', pf='e.x')
        # one digit of one digest changed
        lines = sums.splitlines()
        ch = lines[1][7]
        bad = lines[1][:7] + ('0' if ch != '0' else '1') + lines[1][8:]
        check('\n'.join([lines[0], bad] + lines[2:]) + '\n', 'digest-digit-changed', False, [n for n in names if n != 'b b.txt'])
        # malformed lines -> non-zero exit; good lines still OK
        check(sums + 'not a checksum line\n', 'malformed-extra-line', False, names)
        check(sums + lines[0][:62] + '  a.bin\n', 'short-digest', False, names)
        check(sums + lines[0][:64] + '\n', 'missing-filename', False, names)
        # several check files on one command line: a failure in any of them must make the exit status non-zero
        with open(os.path.join(d, 'good.sums'), 'w') as f:
            f.write(sums)
        with open(os.path.join(d, 'bad.sums'), 'w') as f:
            f.write('\n'.join([lines[0], bad] + lines[2:]) + '\n')
        for order in (['bad.sums', 'good.sums'], ['good.sums', 'bad.sums'], ['good.sums', 'nonexistent.sums'], ['nonexistent.sums', 'good.sums']):
            rc, out, err, _ = cli.run([cli.sum, flag, '-c'] + order, d)
            if rc == 0:
                vio(ctx, cli, 'C19', 'asconsum:check:exit-status:multiple-check-files', alg=alg, order=order, exit=rc)
        rc, out, err, _ = cli.run([cli.sum, flag, '-c', 'good.sums', 'good.sums'], d)
        if rc != 0:
            vio(ctx, cli, 'C19', 'asconsum:check:exit-status:two-good-check-files', alg=alg, exit=rc)
        check('', 'empty-check-file', False, [])
        check('\n\n', 'only-blank-lines', False, [])
    if len(ctx.samples) < 6:
        ctx.samples.append({'kind': 'asconsum -c', 'cases': 'unmodified, CRLF, upper-case, modified, extended, missing, unreadable (EIO), wrong digit, malformed, short digest, no name, empty'})
    shutil.rmtree(d, ignore_errors=True)


# ------------------------------------------------------------------------------------------------ C12 (CLI part)
def run_cli_memory_safety(ctx):
    rng = random.Random(ctx.seed * 104729 + 12)
    cli = Cli(ctx, 'asan')
    if not cli.ok:
        ctx.build_failed(cli.b)
        return
    d = cli.workdir()
    with open(os.path.join(d, 'small'), 'wb') as f:
        f.write(b'0123456789' * 5)
    jobs = []
    # file names: 1..5 characters (shorter than ".ascon"), around the 8192-byte temp buffer, very long; with/without suffix
    namelens = [1, 2, 3, 4, 5, 6, 7, 100, 255]
    longlens = [8180, 8185, 8186, 8187, 8188, 8190, 8191, 8192, 8193, 8197, 8198, 8199, 8200, 8210, 20000, 70000]
    for n in namelens:
        nm = ('ab' * n)[:n]
        jobs.append(('name', nm, True))
        if n > 6:
            jobs.append(('name', nm[:-6] + '.ascon', True))
    for n in longlens:
        # a long path made of directory components so that it can exist is not needed: the tools fail to open it, but only
        # after computing the derived output name, which is what is being exercised
        nm = ('d/' * (n // 2))[:n - 1] + 'x'
        jobs.append(('name', nm, False))
        jobs.append(('name', nm[:-6] + '.ascon', False))
    for pwlen in (0, 1, 1022, 1023, 1024, 1025, 5000, 70000):
        jobs.append(('password', pwlen))
    for klen in (0, 1, 1022, 1023, 1024, 1025, 1026, 5000):
        for tail in ('', '\n', '\r\n'):
            jobs.append(('keyfile', klen, tail))
    jobs.append(('keyfile-nul',))
    for pos in (0, 1, 31, 63):
        jobs.append(('checkbytes', pos))
    for linelen in (10, 63, 64, 65, 66, 67, 1022, 1023, 1024, 1025, 1026, 2047, 2048, 5000):
        jobs.append(('checkline', linelen))
    for digits in (0, 1, 62, 63, 64, 65, 66, 128, 1000):
        jobs.append(('checkdigits', digits))

    def do(job):
        try:
            w = cli.workdir()
            shutil.copy(os.path.join(d, 'small'), os.path.join(w, 'small'))
            if job[0] == 'name':
                nm, create = job[1], job[2]
                if create:
                    shutil.copy(os.path.join(d, 'small'), os.path.join(w, nm))
                for mode in ([], ['-e'], ['-d']):
                    argv = [cli.crypt] + mode + ['-p', 'pw', nm]
                    rc, out, err, _ = cli.run(argv, w)
                    check_sanitizer(ctx, cli, rc, err, 'asconcrypt-filename', 'asconcrypt %s -p pw <name of %d chars%s>' % (' '.join(mode), len(nm), ' ending in .ascon' if nm.endswith('.ascon') else ''))
                rc, out, err, _ = cli.run([cli.sum, nm], w)
                check_sanitizer(ctx, cli, rc, err, 'asconsum-filename', 'asconsum <name of %d chars>' % len(nm))
                ctx.distinct.add('cli-name|len%d|%s' % (len(nm), 'ascon' if nm.endswith('.ascon') else 'plain'))
            elif job[0] == 'password':
                pw = 'p' * job[1]
                for mode in (['-e', '-o', 'o.enc'], ['-d', '-o', 'o.dec']):
                    rc, out, err, _ = cli.run([cli.crypt] + mode + ['-p', pw, 'small'], w)
                    check_sanitizer(ctx, cli, rc, err, 'asconcrypt-password', 'asconcrypt %s -p <%d chars> small' % (mode[0], job[1]))
                ctx.distinct.add('cli-password|len%d' % job[1])
            elif job[0] == 'keyfile':
                with open(os.path.join(w, 'k'), 'wb') as f:
                    f.write(b'k' * job[1] + job[2].encode())
                rc, out, err, _ = cli.run([cli.crypt, '-e', '-k', 'k', '-o', 'o.enc', 'small'], w)
                check_sanitizer(ctx, cli, rc, err, 'asconcrypt-keyfile', 'key file of %d bytes + %r' % (job[1], job[2]))
                ctx.distinct.add('cli-keyfile|len%d|%r' % (job[1], job[2]))
            elif job[0] == 'keyfile-nul':
                with open(os.path.join(w, 'k'), 'wb') as f:
                    f.write(b'abc\0def\n')
                rc, out, err, _ = cli.run([cli.crypt, '-e', '-k', 'k', '-o', 'o.enc', 'small'], w)
                check_sanitizer(ctx, cli, rc, err, 'asconcrypt-keyfile', 'key file with NUL')
                ctx.distinct.add('cli-keyfile|nul')
            elif job[0] == 'checkline':
                n = job[1]
                digest = 'ab' * 32
                with open(os.path.join(w, 'sums'), 'w') as f:
                    f.write(digest + '  ' + 'n' * max(0, n - 66) + '\n' + digest + '  small\n')
                rc, out, err, _ = cli.run([cli.sum, '-c', 'sums'], w)
                check_sanitizer(ctx, cli, rc, err, 'asconsum-checkfile', 'check file with a %d-character line' % n)
                ctx.distinct.add('cli-checkline|len%d' % n)
            elif job[0] == 'checkdigits':
                n = job[1]
                with open(os.path.join(w, 'sums'), 'w') as f:
                    f.write('a' * n + '\n' + 'a' * n + ' \n' + 'a' * n + '  small\n' + 'a' * n)
                rc, out, err, _ = cli.run([cli.sum, '-c', 'sums'], w)
                check_sanitizer(ctx, cli, rc, err, 'asconsum-checkfile', 'check file with %d hex digits' % n)
                rc, out, err, _ = cli.run([cli.sum, '-c'], w, stdin=('a' * n).encode())
                check_sanitizer(ctx, cli, rc, err, 'asconsum-checkfile', 'stdin check file with %d hex digits, no newline' % n)
                ctx.distinct.add('cli-checkdigits|%d' % n)
            elif job[0] == 'checkbytes':
                # every byte value where a hex digit is parsed (UTF-8 BOM, Latin-1, fullwidth digits, control characters)
                lines = [b'\xef\xbb\xbf' + b'ab' * 32 + b'  small\n', b'ab' * 10 + b'\xe9' + b'ab' * 21 + b' small\n', b'\xff' * 64 + b'  small\n',
                         '\uff11'.encode() * 21 + b'a  small\n', b'ab' * 32 + b'\x80\x80small\n']
                for v in range(0, 256, 1 if ctx.thorough else 5):
                    lines.append(b'a' * job[1] + bytes([v]) + b'b' * (63 - job[1]) + b'  small\n')
                with open(os.path.join(w, 'sums'), 'wb') as f:
                    f.write(b''.join(lines))
                rc, out, err, _ = cli.run([cli.sum, '-c', 'sums'], w)
                check_sanitizer(ctx, cli, rc, err, 'asconsum-checkfile', 'check file with non-ASCII / control bytes among the digest characters (position %d)' % job[1])
                with open(os.path.join(w, 'kb'), 'wb') as f:
                    f.write(bytes(range(1, 256)).replace(b'\n', b'').replace(b'\r', b'') + b'\n')
                rc, out, err, _ = cli.run([cli.crypt, '-e', '-k', 'kb', '-o', 'o.enc', 'small'], w)
                check_sanitizer(ctx, cli, rc, err, 'asconcrypt-keyfile', 'key file with every byte value 1..255')
                ctx.distinct.add('cli-checkbytes|pos%d' % job[1])
            shutil.rmtree(w, ignore_errors=True)
        except Exception:
            import traceback
            ctx.inconclusive.append('cli memory-safety job %s: %s' % (job[0], traceback.format_exc()[-600:]))

    with cf.ThreadPoolExecutor(max_workers=core.NCPU) as ex:
        list(ex.map(do, jobs))
    ctx.counters['cli_process_runs'] = cli.runs
    ctx.counters['cases'] = ctx.counters.get('cases', 0) + cli.runs
    if len(ctx.samples) < 6:
        ctx.samples.append({'kind': 'cli-memory-safety', 'argv': 'asconcrypt -p pw <file name of 8198 characters ending in .ascon>'})
    shutil.rmtree(cli.root, ignore_errors=True)
