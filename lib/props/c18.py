"""C18: assembly backends match their generators, the specification and the ABI; no executable stack.
Five monitors (DESIGN.md section 4 C18): generator identity, native x86-64 ABI trampoline,
native i386 (32-bit static build), instrumented interpreters for the files this host cannot
run, executable-stack observer."""
import concurrent.futures as cf
import os
import re
import shutil
import subprocess
import sys

import core
from core import Cfg, Violation

RULE = ('(1) generator identity: tools/ copied to scratch, built, every generator of every tools/*/Makefile generate: rule run and its '
        'stdout byte-compared with the checked-in .S file; every src/**/*asm*.S must be covered by a rule.  (2) native x86-64: every '
        'assembly entry point (ascon_permute, ascon_x2/x3/x4_permute, the masked-word functions) called through a trampoline that '
        'plants sentinels in rbx, rbp, r12-r15, records rsp and the direction flag, plants canaries in the caller frame, with '
        'operands between guard pages; results compared with the reference permutation / unmasked model.  (3) native i386: the i386 '
        'file + the sliced-32 C glue built -m32 freestanding static, same trampoline idea (ebx, esi, edi, ebp, esp), all 12 rounds vs '
        'the reference.  (4) instrumented interpreters (emu/) execute the text of the ARMv6, ARMv6-M, ARMv7-M, AArch64, AVR5 (+x2, '
        'x3), m68k, RV32E, RV32I, RV64I and Xtensa files for every starting round on structured and random states under their '
        'documented state layout and assert: result == reference permutation, callee-saved registers and stack pointer restored, '
        'every memory access inside the state or the own frame of the function; an unknown mnemonic makes that file inconclusive.  (5) '
        'executable stack: GNU_STACK of the built libascon.so / asconcrypt / asconsum must not be RWE, every assembled object must '
        'carry .note.GNU-stack, and a running process linked with libascon.so must not have an executable [stack] mapping; distinct '
        '= (file, monitor, first round / state class)')
ASSUME = ['interpreters model the ISA subset the generators emit, validated by having to reproduce the specification on the unchanged files',
          'no real foreign hardware']


# ------------------------------------------------------------------------------------------------ monitor 1
def generator_identity(ctx):
    src_tools = os.path.join(core.REPO, 'tools')
    tdir = os.path.join(ctx.scratch, 'tools')
    shutil.copytree(src_tools, tdir)
    subs = []
    mk = open(os.path.join(tdir, 'Makefile')).read()
    m = re.search(r'SUBDIRS\s*=\s*((?:.*\\\n)*.*)', mk)
    subs = [s for s in re.split(r'[\s\\]+', m.group(1)) if s]
    with cf.ThreadPoolExecutor(max_workers=len(subs)) as ex:
        res = list(ex.map(lambda d: subprocess.run(['make', '-C', os.path.join(tdir, d), 'all'], stdout=subprocess.PIPE, stderr=subprocess.STDOUT, text=True), subs))
    covered = set()
    nfiles = 0
    for d, p in zip(subs, res):
        if p.returncode:
            ctx.violations.append(Violation('C18', 'generator:does-not-build:%s' % d, {'log': p.stdout[-1500:]}))
            continue
        # `make -n generate` prints the rule's command lines with make variables expanded, without running them
        dry = subprocess.run(['make', '-C', os.path.join(tdir, d), '-n', 'generate'], stdout=subprocess.PIPE, stderr=subprocess.STDOUT, text=True).stdout
        for line in dry.splitlines():
            line = '\t' + line.strip()
            mm = re.match(r'\t\s*(.+?)\s*>\s*(\S+)\s*$', line)
            if not mm:
                continue
            cmd, target = mm.group(1), mm.group(2)
            real = os.path.normpath(os.path.join(src_tools, d, target))
            rel = os.path.relpath(real, core.REPO)
            covered.add(rel)
            nfiles += 1
            p2 = subprocess.run(cmd, shell=True, cwd=os.path.join(tdir, d), stdout=subprocess.PIPE, stderr=subprocess.PIPE)
            want = open(real, 'rb').read() if os.path.exists(real) else None
            ctx.distinct.add('generator|' + rel)
            if p2.returncode or want is None or p2.stdout != want:
                first = None
                if want is not None:
                    a, b = p2.stdout.splitlines(), want.splitlines()
                    for i in range(max(len(a), len(b))):
                        if i >= len(a) or i >= len(b) or a[i] != b[i]:
                            first = {'line': i + 1, 'generator': (a[i] if i < len(a) else b'<eof>').decode('utf8', 'replace')[:120],
                                     'checked_in': (b[i] if i < len(b) else b'<eof>').decode('utf8', 'replace')[:120]}
                            break
                ctx.violations.append(Violation('C18', 'generator:output-differs:%s' % rel, {'command': cmd, 'exit': p2.returncode, 'first_difference': first}))
    # every assembly file must be covered by a generate rule
    for root in ('src/core', 'src/masking'):
        for f in sorted(os.listdir(os.path.join(core.REPO, root))):
            if f.endswith('.S'):
                rel = os.path.join(root, f)
                if rel not in covered:
                    ctx.violations.append(Violation('C18', 'generator:no-rule-for:%s' % rel, {'file': rel}))
    ctx.counters['generator_files_compared'] = nfiles
    if len(ctx.samples) < 6:
        ctx.samples.append({'monitor': 'generator identity', 'files': nfiles, 'example': 'tools/genriscv/bin/ascon_riscv32i vs src/core/ascon-asm-riscv32i.S'})
    shutil.rmtree(tdir, ignore_errors=True)


# ------------------------------------------------------------------------------------------------ monitor 5
def exec_stack(ctx):
    b = ctx.build(Cfg('asm'), 'rel', targets=('ascon', 'ascon_static', 'asconcrypt', 'asconsum'))
    if not b.ok:
        ctx.build_failed(b)
        return
    so = None
    for f in os.listdir(os.path.join(b.dir, 'src')):
        if f.startswith('libascon.so'):
            so = os.path.join(b.dir, 'src', f)
    for name, path in (('libascon.so', so), ('asconcrypt', b.tool('asconcrypt')), ('asconsum', b.tool('asconsum'))):
        if not path or not os.path.exists(path):
            ctx.inconclusive.append('exec-stack: %s was not built' % name)
            continue
        out = subprocess.run(['readelf', '-lW', path], stdout=subprocess.PIPE, text=True).stdout
        m = re.search(r'GNU_STACK\s+\S+\s+\S+\s+\S+\s+\S+\s+\S+\s+(\S+)', out)
        flags = m.group(1) if m else 'missing'
        ctx.distinct.add('execstack|' + name)
        ctx.counters['elf_objects_inspected'] = ctx.counters.get('elf_objects_inspected', 0) + 1
        if 'E' in flags or flags == 'missing':
            ctx.violations.append(Violation('C18', 'execstack:GNU_STACK:%s' % name, {'file': name, 'flags': flags, 'build': b.name}, build=b))
    # every assembled object carries .note.GNU-stack
    objs = []
    for root, _, files in os.walk(os.path.join(b.dir, 'src', 'CMakeFiles')):
        for f in files:
            if f.endswith('.S.o'):
                objs.append(os.path.join(root, f))
    missing = set()
    for o in objs:
        out = subprocess.run(['readelf', '-SW', o], stdout=subprocess.PIPE, text=True).stdout
        ctx.counters['elf_objects_inspected'] = ctx.counters.get('elf_objects_inspected', 0) + 1
        if '.note.GNU-stack' not in out:
            missing.add(os.path.basename(o))
    if missing:
        ctx.violations.append(Violation('C18', 'execstack:object-without-note', {'objects': sorted(missing)[:40], 'count': len(missing)}, build=b))
    # a running process linked against libascon.so
    if so:
        prog = os.path.join(b.dir, 'stackprobe')
        src = os.path.join(b.dir, 'stackprobe.c')
        with open(src, 'w') as f:
            f.write('#include <stdio.h>\n#include <string.h>\n#include <ascon/hash.h>\nint main(void){unsigned char d[32];char l[512];FILE*f;ascon_hash(d,(const unsigned char*)"x",1);'
                    'f=fopen("/proc/self/maps","r");while(fgets(l,sizeof l,f))if(strstr(l,"[stack]"))fputs(l,stdout);return d[0]==0?0:0;}\n')
        p = subprocess.run(['gcc', '-o', prog, src, '-I' + os.path.join(core.REPO, 'src'), '-L' + os.path.dirname(so), '-lascon',
                            '-Wl,-rpath,' + os.path.dirname(so)], stdout=subprocess.PIPE, stderr=subprocess.STDOUT, text=True)
        if p.returncode == 0:
            out = subprocess.run([prog], stdout=subprocess.PIPE, text=True).stdout
            m = re.search(r'\s([r-][w-][x-][ps])\s', out)
            perms = m.group(1) if m else '?'
            ctx.counters['processes_observed'] = ctx.counters.get('processes_observed', 0) + 1
            if 'x' in perms:
                ctx.violations.append(Violation('C18', 'execstack:process-stack-executable', {'maps_line': out.strip(), 'linked_with': 'libascon.so'}, build=b))
        else:
            ctx.inconclusive.append('exec-stack: probe program does not link: ' + p.stdout[-300:])
    if len(ctx.samples) < 6:
        ctx.samples.append({'monitor': 'executable stack', 'objects': len(objs) + 3})


def run(ctx):
    ctx.rule, ctx.assumptions = RULE, ASSUME
    generator_identity(ctx)
    exec_stack(ctx)
    try:
        import props.c18_native as native
        native.run_native(ctx)
    except ImportError:
        ctx.notes.append('native ABI monitors not built yet')
    try:
        sys.path.insert(0, os.path.join(core.VERIF, 'emu'))
        import props.c18_emu as emu
        emu.run_emulators(ctx)
    except ImportError:
        ctx.notes.append('interpreters not built yet')
    ev = ctx.counters.get('generator_files_compared', 0) + ctx.counters.get('elf_objects_inspected', 0) + ctx.counters.get('cases', 0) + ctx.counters.get('emulated_calls', 0)
    return ctx.finish(evaluations=ev)


def replay(ctx, rec):
    return run(ctx)
