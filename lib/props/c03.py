"""C03: HASH/HASHA/XOF/XOFA, fixed-length XOF, customised XOF vs the reference model."""
from props._gen import run_matrix, replay_generic, diverse_specs, wide_specs, with_args, H

RULE = ('hash, hasha, xof, xofa, xof/xofa init_fixed (declared lengths 0..40, 2^16, 2^29-1, 2^29, 2^29+1, SIZE_MAX) and init_custom (function names 0..40 bytes incl. NULL, >32 = hashed, bytes >= 0x80; customisation 0..40 and up to 1 KiB, NULL when empty): every message length 0..300 then boundary-biased lengths to 4 KiB (quick) / 64 KiB (thorough); output lengths 0..100 and up to 4 KiB; one-shot and init+absorb+squeeze compared with ref_cxof; the C++ hash/hasha classes and xof/xofa templates <0,1,32,64> through every overload (pointer, C string, std::string incl. NUL bytes, byte_array); distinct = (build, alg, in-class, out-class, history, declared-class, name-class, custom-class)')
ASSUME = ['reference hash/XOF validated on pinned NIST vectors; cXOF layout validated through the pinned KMAC/KMACA vectors', 'hashed long-name path follows doc/cxof.dox']


def harnesses():
    # src/ascon/hash.h and xof.h (the C++ classes and fixed-length templates, every update/absorb overload) are anchors of C03 too
    return [with_args(H['sym'], 'sym', ['--arg', 'C03'], 30000, 600000), with_args(H['cpp'], 'cpp', ['--arg', 'hashes'], 12000, 200000)]


def run(ctx):
    specs = [s for s in wide_specs() if s[0].shares == (4, 2, 4)] if ctx.thorough else diverse_specs()
    return run_matrix(ctx, harnesses(), specs, RULE, assumptions=ASSUME)


def replay(ctx, rec):
    rc = replay_generic(ctx, rec, H)
    return run(ctx) if rc is None else rc
