"""C18 monitors 2 and 3: native x86-64 ABI trampoline; native i386 32-bit static build."""
import os
import subprocess

import core
from core import Cfg, Violation
from props._gen import H


def run_native(ctx):
    cfgs = [Cfg('asm', (4, 2, 4))] + ([Cfg('asm', (3, 3, 3)), Cfg('asm', (2, 2, 2))] if ctx.thorough else [Cfg('asm', (3, 3, 3))])
    h = H['abi']
    for b in ctx.build_many([(c, 'rel') for c in cfgs]):
        if not b.ok:
            ctx.build_failed(b)
            continue
        exe, log = ctx.compile_harness(b, h['name'], h['sources'])
        if exe is None:
            raise core.HarnessError('h_abi does not compile: ' + log[-3000:])
        before = ctx.counters.get('canary_detected', 0)
        ctx.run_harness(b, exe, 'abi-canary', extra_args=['--arg', 'canary'], shards=1, prop='C18')
        if ctx.counters.get('canary_detected', 0) <= before:
            ctx.inconclusive.append('the register/stack trampoline did not detect the planted bad callee on %s' % b.name)
            continue
        ctx.run_harness(b, exe, 'abi', cases=40000 if ctx.thorough else 3000, shards=8, prop='C18')
    run_i386(ctx)


def run_i386(ctx):
    import props.c18_i386 as m
    m.run(ctx)
