"""Build driver, shard runner, violation routing, evidence and replay plumbing.
Python 3 stdlib only.  See DESIGN.md section 2."""
import concurrent.futures as cf
import fnmatch
import hashlib
import json
import os
import re
import shutil
import signal
import subprocess
import sys
import tempfile
import time

VERIF = os.path.dirname(os.path.dirname(os.path.abspath(__file__)))
REPO = os.environ.get('VERIF_REPO', '/repo')
GUARD = 'ASCON_SUITE_VERIF'
NCPU = min(16, os.cpu_count() or 4)

BACKENDS = {
    'asm': [],
    'c64': ['-DBACKEND_C64=ON'],
    'c32': ['-DBACKEND_C32=ON'],
    'dxor': ['-DBACKEND_DIRECT_XOR=ON'],
    'generic': ['-DBACKEND_GENERIC=ON'],
}
FORCE = {
    'asm': [], 'c64': ['-DASCON_FORCE_C64'], 'c32': ['-DASCON_FORCE_C32'],
    'dxor': ['-DASCON_FORCE_DIRECT_XOR'], 'generic': ['-DASCON_FORCE_GENERIC'],
}
FLAVOURS = {
    # flavour: (cmake build type, compile flags, env for runs)
    'rel': ('Release', '-g', {}),      # the repository's own Release flags (-O3) plus debug info (no code-generation change)
    'asan': ('Verif', '-O1 -g -fno-omit-frame-pointer -fsanitize=address,undefined -fno-sanitize-recover=all',
             {'ASAN_OPTIONS': 'abort_on_error=0:detect_leaks=0:exitcode=99:detect_stack_use_after_return=1',
              'UBSAN_OPTIONS': 'print_stacktrace=1:exitcode=98'}),
    'tsan': ('Verif', '-O1 -g -fsanitize=thread',
             {'TSAN_OPTIONS': 'halt_on_error=1:exitcode=97:second_deadlock_stack=1'}),
    'cov': ('Verif', '-O0 -g --coverage', {}),
}

ALL_SHARES = [(k, d, m) for k in (2, 3, 4) for d in range(1, k + 1) for m in (2, 3, 4)]


class Cfg:
    def __init__(self, backend='asm', shares=(4, 2, 4), checker=False):
        self.backend, self.shares, self.checker = backend, tuple(shares), checker

    @property
    def name(self):
        return '%s-%d.%d.%d%s' % (self.backend, self.shares[0], self.shares[1], self.shares[2],
                                  '-chk' if self.checker else '')

    def cmake_args(self):
        a = list(BACKENDS[self.backend])
        a += ['-DKEY_SHARES=%d' % self.shares[0], '-DDATA_SHARES=%d' % self.shares[1],
              '-DMAX_SHARES=%d' % self.shares[2]]
        if self.checker:
            a.append('-DCHECK_ACQUIRE_RELEASE=ON')
        return a

    def force_flags(self):
        f = list(FORCE[self.backend])
        if self.checker:
            f += ['-DASCON_FORCE_GENERIC', '-DASCON_CHECK_ACQUIRE_RELEASE']
        return f

    def eff_shares(self):
        k, d, m = self.shares
        return (min(k, m), min(d, m), m)

    def to_json(self):
        return {'backend': self.backend, 'shares': list(self.shares), 'checker': self.checker}

    @staticmethod
    def from_json(j):
        return Cfg(j['backend'], j['shares'], j.get('checker', False))


class Build:
    def __init__(self, cfg, flavour, bdir, cc=None):
        self.cfg, self.flavour, self.dir, self.cc = cfg, flavour, bdir, cc
        self.ok, self.log = False, ''
        self.name = cfg.name + '/' + flavour + ('-' + cc if cc else '')

    @property
    def lib(self):
        return os.path.join(self.dir, 'src', 'libascon_static.a')

    def tool(self, name):
        return os.path.join(self.dir, 'apps', name, name)

    def harness_flags(self, cxx=False):
        fl = FLAVOURS[self.flavour][1].split()
        if self.flavour == 'rel':
            fl = ['-O2', '-g']
        if self.cc == 'clang' and self.flavour == 'asan':
            fl.append('-fno-sanitize=object-size')
        inc = ['-I' + os.path.join(VERIF, 'h'), '-I' + os.path.join(VERIF, 'ref'),
               '-I' + os.path.join(REPO, 'src'), '-I' + self.dir,
               '-DHAVE_CONFIG_H', '-D' + GUARD] + self.cfg.force_flags()
        return fl + inc + (['-std=gnu++11'] if cxx else ['-std=gnu99'])

    def env(self):
        e = dict(os.environ)
        e.update(FLAVOURS[self.flavour][2])
        return e


class Violation:
    def __init__(self, prop, key, detail, build=None, harness=None, args=None):
        self.prop, self.key, self.detail = prop, key, detail
        self.build, self.harness, self.args = build, harness, args or {}


class Ctx:
    def __init__(self, prop, tier, seed):
        self.prop, self.tier, self.seed = prop, tier, seed
        self.thorough = tier == 'thorough'
        base = os.environ.get('VERIF_SCRATCH', '/var/tmp')
        self.scratch = tempfile.mkdtemp(prefix='ascon-verif.%s.' % prop, dir=base)
        self.t0 = time.time()
        self.violations = []      # Violation (all properties)
        self.counters = {}
        self.maxima = {}
        self.distinct = set()
        self.samples = []
        self.notes = []
        self.builds = {}
        self.inconclusive = []
        self.level = 'exploration'
        self.rule = ''
        self.assumptions = []
        self.extra = {}
        self.transcripts = {}     # (build name, harness, args) -> {case: digest}

    # ---------------------------------------------------------------- builds
    def build(self, cfg, flavour='rel', targets=('ascon_static',), cc=None):
        key = (cfg.name, flavour, cc)
        if key in self.builds:
            return self.builds[key]
        bdir = os.path.join(self.scratch, 'b-%s-%s%s' % (cfg.name, flavour, '-' + cc if cc else ''))
        b = Build(cfg, flavour, bdir, cc)
        btype, flags, _ = FLAVOURS[flavour]
        if cc == 'clang' and 'fsanitize=address' in flags:
            flags += ' -fno-sanitize=object-size'
        cflags = ('-D' + GUARD + ' ' + flags).strip()
        cmd = ['cmake', '-G', 'Ninja', '-S', REPO, '-B', bdir, '-DCMAKE_BUILD_TYPE=' + btype,
               '-DCMAKE_C_FLAGS=' + cflags, '-DCMAKE_CXX_FLAGS=' + cflags] + cfg.cmake_args()
        if cc == 'clang':
            cmd += ['-DCMAKE_C_COMPILER=clang', '-DCMAKE_CXX_COMPILER=clang++', '-DCMAKE_ASM_COMPILER=clang']
        p = subprocess.run(cmd, stdout=subprocess.PIPE, stderr=subprocess.STDOUT, text=True)
        b.log = p.stdout
        if p.returncode == 0:
            p = subprocess.run(['ninja', '-C', bdir, '-j', str(max(2, NCPU // 2))] + list(targets),
                               stdout=subprocess.PIPE, stderr=subprocess.STDOUT, text=True)
            b.log += p.stdout
        b.ok = p.returncode == 0 and (os.path.exists(b.lib) or 'ascon_static' not in targets)
        self.builds[key] = b
        return b

    def build_many(self, specs):
        """specs: list of (cfg, flavour[, targets]) -> list of Build (parallel)."""
        with cf.ThreadPoolExecutor(max_workers=max(1, NCPU // 3)) as ex:
            futs = [ex.submit(self.build, s[0], s[1], s[2] if len(s) > 2 and s[2] else ('ascon_static',), s[3] if len(s) > 3 else None) for s in specs]
            return [f.result() for f in futs]

    def build_failed(self, b, prop=None):
        """A configuration the property quantifies over that does not build."""
        tail = '\n'.join(b.log.strip().splitlines()[-25:])
        m = re.search(r'([\w\-/\.]+\.(?:c|cpp|h|S)):(\d+):\d*:? (?:fatal )?error: (.*)', b.log)
        where = (os.path.basename(m.group(1)) + ':' + re.sub(r'\d+', 'N', m.group(3))[:60]) if m else 'build'
        self.violations.append(Violation(prop or self.prop, 'build-failed:%s:%s' % (b.cfg.name, where),
                                         {'build': b.name, 'log_tail': tail}, build=b))

    def compile_harness(self, b, name, sources, cxx=False, extra=(), libs=()):
        out = os.path.join(b.dir, 'h_' + name)
        clang = b.cc == 'clang'
        cc = ('clang++' if cxx else 'clang') if clang else ('g++' if cxx else 'gcc')
        objs = []
        ref_o = os.path.join(b.dir, 'vf_ref.o')
        com_o = os.path.join(b.dir, 'vf_common.o')
        base = b.harness_flags(False)
        for src, o in ((os.path.join(VERIF, 'ref', 'ascon_ref.c'), ref_o), (os.path.join(VERIF, 'h', 'common.c'), com_o)):
            if not os.path.exists(o):
                fl = [f for f in base if not f.startswith('-fsanitize') and f != '-fno-sanitize-recover=all' and f != '--coverage']
                p = subprocess.run(['clang' if clang else 'gcc'] + fl + ['-c', src, '-o', o], stdout=subprocess.PIPE, stderr=subprocess.STDOUT, text=True)
                if p.returncode:
                    raise HarnessError('compile %s: %s' % (src, p.stdout))
            objs.append(o)
        cmd = [cc] + b.harness_flags(cxx) + ['-Wall', '-Wno-unused-function'] + list(extra)
        for s in sources:
            cmd.append(s if os.path.isabs(s) else os.path.join(VERIF, 'h', s))
        cmd += objs + [b.lib] + list(libs) + ['-o', out]
        if not cxx and any(s.endswith('.cpp') for s in sources):
            raise HarnessError('c++ source with C driver')
        p = subprocess.run(cmd, stdout=subprocess.PIPE, stderr=subprocess.STDOUT, text=True)
        if p.returncode:
            return None, p.stdout
        return out, p.stdout

    # ---------------------------------------------------------------- running
    def run_harness(self, b, exe, harness, shards=None, cases=None, extra_args=(), timeout=1800, prop=None,
                    env_extra=None, wrapper=(), only=None, crash_key_cfg=False):
        """Run `exe` sharded; parse records; route crashes.  Returns dict of counters of this run."""
        shards = shards or NCPU
        if only is not None:
            shards = 1
        prop = prop or self.prop
        env = b.env()
        if env_extra:
            env.update(env_extra)

        def one(i):
            prog = os.path.join(b.dir, 'progress.%s.%d' % (harness, i))
            cmd = list(wrapper) + [exe, '--seed', str(self.seed), '--shard', '%d/%d' % (i, shards),
                                   '--build', b.name, '--progress', prog] + list(extra_args)
            if cases is not None:
                cmd += ['--cases', str(cases)]
            if self.thorough:
                cmd.append('--thorough')
            if only is not None:
                cmd += ['--only', str(only)]
            for attempt in (0, 1):
                try:
                    p = subprocess.run(cmd, stdout=subprocess.PIPE, stderr=subprocess.PIPE, env=env, timeout=timeout,
                                       errors='replace', text=True, cwd=b.dir)
                    return (i, p.returncode, p.stdout, p.stderr, prog, cmd)
                except subprocess.TimeoutExpired as e:
                    if attempt == 1:
                        out = e.stdout.decode('utf8', 'replace') if isinstance(e.stdout, bytes) else (e.stdout or '')
                        return (i, 'timeout', out, '', prog, cmd)
            return None

        with cf.ThreadPoolExecutor(max_workers=shards) as ex:
            results = list(ex.map(one, range(shards)))
        local = {}
        for (i, rc, out, err, prog, cmd) in results:
            ended = False
            for line in out.splitlines():
                f = line.split('\t')
                if f[0] == 'V' and len(f) >= 4:
                    try:
                        det = json.loads(f[3])
                    except Exception:
                        det = {'raw': f[3]}
                    self.violations.append(Violation(f[1], f[2], det, build=b, harness=harness,
                                                     args={'extra': list(extra_args), 'cases': cases}))
                elif f[0] == 'D' and len(f) >= 2:
                    self.distinct.add(b.cfg.name + '|' + f[1])
                elif f[0] == 'X' and len(f) >= 2:
                    if len(self.samples) < 6:
                        try:
                            self.samples.append(json.loads(f[1]))
                        except Exception:
                            self.samples.append({'raw': f[1]})
                elif f[0] == 'S' and len(f) >= 3:
                    self.counters[f[1]] = self.counters.get(f[1], 0) + int(f[2])
                    local[f[1]] = local.get(f[1], 0) + int(f[2])
                elif f[0] == 'M' and len(f) >= 3:
                    self.maxima[f[1]] = max(self.maxima.get(f[1], 0), int(f[2]))
                elif f[0] == 't' and len(f) >= 3:
                    self.transcripts.setdefault((b.name, harness, tuple(extra_args)), {})[int(f[1])] = f[2]
                elif f[0] == 'E':
                    ended = True
            if rc == 'timeout':
                where = self._progress(prog)
                self.violations.append(Violation(prop, 'hang:%s:%s' % (harness, _cls(where)),
                                                 {'build': b.name, 'progress': where, 'cmd': cmd}, build=b,
                                                 harness=harness, args={'extra': list(extra_args), 'cases': cases,
                                                                        'case': _case_of(where)}))
            elif rc != 0 or not ended:
                where = self._progress(prog)
                if rc == 2 and 'HARNESS' in err:
                    self.inconclusive.append('%s on %s: %s' % (harness, b.name, err.strip()[-300:]))
                    continue
                kind, vprop = classify_crash(rc, err)
                if crash_key_cfg and kind.startswith('crash'):
                    kind = kind + ':' + b.cfg.name
                self.violations.append(Violation(vprop or prop, '%s:%s' % (kind, _cls(where) if kind.startswith('crash') else harness),
                                                 {'build': b.name, 'exit': rc, 'progress': where,
                                                  'stderr_tail': err.strip()[-3000:]}, build=b, harness=harness,
                                                 args={'extra': list(extra_args), 'cases': cases, 'case': _case_of(where)}))
        return local

    @staticmethod
    def _progress(path):
        try:
            with open(path, 'rb') as f:
                return f.read(4000).split(b'\0')[0].decode('utf8', 'replace')
        except OSError:
            return ''

    # ---------------------------------------------------------------- verdict
    def finish(self, evaluations=None, extra_cov=None):
        """Route violations, write evidence, print verdict lines; returns exit code."""
        known = load_known()
        mine = [v for v in self.violations if v.prop == self.prop]
        others = [v for v in self.violations if v.prop != self.prop]
        new, seen_known, seen_keys = [], {}, set()
        for v in mine:
            k = match_known(known, self.prop, v.key)
            if k is not None:
                seen_known.setdefault(k['key'], k)
            elif v.key not in seen_keys:
                seen_keys.add(v.key)
                new.append(v)
        for k in seen_known.values():
            print('KNOWN-FINDING: property=%s %s [%s]' % (self.prop, k['what'], k['key']))
        rc = 0
        if len(new) > 8:
            print('(%d distinct violation keys; reporting the first 8)' % len(new))
        for v in new[:8]:
            path = write_replay(self, v)
            print('VIOLATION property=%s replay=%s' % (self.prop, path))
            print('  key=%s detail=%s' % (v.key, json.dumps(v.detail)[:1500]))
            rc = 1
        if self.inconclusive and rc == 0:
            for s in self.inconclusive:
                print('INCONCLUSIVE: ' + s)
            rc = 2
        ev = evaluations if evaluations is not None else self.counters.get('cases', 0)
        cov = {
            'evaluations': int(ev),
            'distinct_nontrivial': len(self.distinct),
            'rule': self.rule,
            'samples': self.samples[:6] or [{'note': 'no sample recorded'}],
            'builds': sorted({b.name for b in self.builds.values() if b.ok}),
            'counters': self.counters,
            'maxima': self.maxima,
            'known_findings_seen': sorted(seen_known),
            'other_property_observations': sorted({v.prop + ':' + v.key for v in others})[:40],
            'notes': self.notes,
        }
        cov.update(self.extra)
        if extra_cov:
            cov.update(extra_cov)
        if rc == 0 and (cov['evaluations'] < 1 or cov['distinct_nontrivial'] < 2):
            print('INCONCLUSIVE: the run observed nothing (evaluations=%d distinct=%d)' % (cov['evaluations'], cov['distinct_nontrivial']))
            rc = 2
        evidence = {
            'property_id': self.prop, 'tier': self.tier, 'seed': self.seed, 'level': self.level,
            'coverage': cov, 'assumptions': self.assumptions, 'wall_s': round(time.time() - self.t0, 2),
            'violations': len(new),
        }
        os.makedirs(os.path.join(VERIF, 'evidence'), exist_ok=True)
        tmp = os.path.join(VERIF, 'evidence', '.%s.json.tmp' % self.prop)
        with open(tmp, 'w') as f:
            json.dump(evidence, f, indent=1, sort_keys=True)
            f.write('\n')
        os.replace(tmp, os.path.join(VERIF, 'evidence', '%s.json' % self.prop))
        print('%s %s tier=%s seed=%d evaluations=%d distinct=%d builds=%d wall=%.1fs -> %s' % (
            self.prop, {0: 'HELD', 1: 'VIOLATED', 2: 'INCONCLUSIVE'}[rc], self.tier, self.seed, cov['evaluations'],
            cov['distinct_nontrivial'], len(cov['builds']), time.time() - self.t0,
            'exit %d' % rc))
        return rc

    def cleanup(self):
        shutil.rmtree(self.scratch, ignore_errors=True)


class HarnessError(Exception):
    pass


def _cls(where):
    """stable class of a progress string: drop numbers"""
    w = re.sub(r'case=\d+\s*', '', where or 'unknown')
    w = re.sub(r'\d+', 'N', w)
    return w.strip()[:80] or 'unknown'


def _case_of(where):
    m = re.search(r'case=(\d+)', where or '')
    return int(m.group(1)) if m else None


def classify_crash(rc, err):
    """-> (key prefix, property override or None)"""
    m = re.search(r'ERROR: AddressSanitizer: ([\w\-]+)', err)
    if m:
        kind = m.group(1)
        fn = _first_repo_frame(err)
        return 'asan:%s:%s' % (kind, fn), 'C12'
    m = re.search(r'([\w\-\./]+):(\d+):(\d+): runtime error: (.*)', err)
    if m:
        msg = re.sub(r'0x[0-9a-f]+', 'ADDR', m.group(4))
        msg = re.sub(r'\d+', 'N', msg)[:70]
        return 'ubsan:%s:%s' % (os.path.basename(m.group(1)), msg), 'C12'
    if 'ThreadSanitizer' in err:
        m = re.search(r'WARNING: ThreadSanitizer: ([\w \-]+)', err)
        return 'tsan:%s:%s' % ((m.group(1).strip().replace(' ', '-') if m else 'report'), _first_repo_frame(err)), 'C16'
    if 'acquire' in err or 'release' in err:
        pass
    if isinstance(rc, int) and rc < 0:
        try:
            name = signal.Signals(-rc).name
        except ValueError:
            name = 'SIG%d' % -rc
        return 'crash:%s' % name, None
    return 'crash:exit%s' % rc, None


def _first_repo_frame(err):
    for m in re.finditer(r'#\d+ 0x[0-9a-f]+ in (\S+) (\S+)', err):
        fn, loc = m.group(1), m.group(2)
        if '/src/' in loc or '/apps/' in loc or loc.startswith(REPO):
            if '/verif/' in loc:
                continue
            return fn
    for m in re.finditer(r'#\d+ (\S+) (/\S+?):\d+', err):      # ThreadSanitizer frame format
        fn, loc = m.group(1), m.group(2)
        if ('/src/' in loc or '/apps/' in loc) and '/verif/' not in loc:
            return fn
    m = re.search(r'#0 0x[0-9a-f]+ in (\S+)', err)
    return m.group(1) if m else 'unknown'


# -------------------------------------------------------------------- known findings
def load_known():
    p = os.path.join(VERIF, 'known_findings.json')
    if not os.path.exists(p):
        return []
    with open(p) as f:
        return json.load(f).get('findings', [])


def match_known(known, prop, key):
    for k in known:
        if k.get('status') == 'known' and k.get('property') == prop and fnmatch.fnmatchcase(key, k['key']):
            return k
    return None


def write_replay(ctx, v):
    os.makedirs(os.path.join(VERIF, 'replays'), exist_ok=True)
    h = hashlib.sha1((v.prop + v.key).encode()).hexdigest()[:10]
    path = os.path.join(VERIF, 'replays', '%s-%s.json' % (v.prop, h))
    rec = {
        'property': v.prop, 'key': v.key, 'detail': v.detail, 'seed': ctx.seed, 'tier': ctx.tier,
        'harness': v.harness, 'args': v.args,
        'build': {'cfg': v.build.cfg.to_json(), 'flavour': v.build.flavour} if v.build else None,
        'case': v.detail.get('case') if isinstance(v.detail, dict) and v.detail.get('case') is not None else v.args.get('case'),
    }
    with open(path, 'w') as f:
        json.dump(rec, f, indent=1)
        f.write('\n')
    return path


def ref_selftest(ctx):
    """build + run the reference self-test; returns True if ok"""
    exe = os.path.join(ctx.scratch, 'ref_selftest')
    p = subprocess.run(['gcc', '-O2', '-o', exe, os.path.join(VERIF, 'ref', 'selftest.c'),
                        os.path.join(VERIF, 'ref', 'ascon_ref.c')], stdout=subprocess.PIPE, stderr=subprocess.STDOUT, text=True)
    if p.returncode:
        print('HARNESS: reference model does not compile:\n' + p.stdout)
        return False
    p = subprocess.run([exe, os.path.join(VERIF, 'ref', 'kat_pinned')], stdout=subprocess.PIPE, stderr=subprocess.STDOUT, text=True)
    if p.returncode or 'REF-SELFTEST ok' not in p.stdout:
        print('HARNESS: reference self-test failed:\n' + p.stdout[-2000:])
        return False
    m = re.search(r'vectors=(\d+)', p.stdout)
    ctx.extra['reference_selftest_vectors'] = int(m.group(1)) if m else 0
    return True
